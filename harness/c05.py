"""C05 -- cached-result selection follows the documented compatibility rule.

proofs : coq/Props/C05.v (select = documented rule, order independence, no-git rule, --at-least,
         flags; facts about explicit commit graphs) for arbitrary git functions.
tie    : (a) Model/Select.v select/should_run vs the real RunExperiment methods under a stub
             context (stub git tables, real sqlite VersionIndex handing rows out in every order):
             exhaustive small scope, through the packed channel, group-hashed;
         (f) validate_flags vs the real argparse parser + cli.run.main under a stub context;
         (b) the commit-graph functions (Python and Coq) vs real git through
             conductor.utils.git.Git on generated histories (merges, several roots);
         (c) end to end on generated projects with real git: `cond where`, cached/executed
             tasks of `cond run` with --again / --at-least / --this-commit (hashes, branches,
             lightweight and annotated tags), COND_DEPS of dependents.
oracle : the documented rule written independently in Python (select_util.oracle_*), evaluated
         on what the implementation did.
"""
import argparse
import concurrent.futures
import contextlib
import io
import itertools
import multiprocessing
import os
import pathlib
import signal
import sqlite3
import subprocess
import sys

from common import Check, NCPU, clist, cstr, cbool, copt, new_dir, pack, run_packed_cases, ser_bool, ser_n, ser_opt, setup_impl_path
import select_util as su
from select_util import Dag, V, oracle_flags, oracle_rerun, oracle_select

IMPORTS = "From Conductor Require Import Lib.Str Lib.Cmp Model.Select."

# ============================================================================= implementation access
class Impl:
    def __init__(self):
        setup_impl_path()
        import conductor.cli.run as cli_run
        import conductor.errors as errors
        from conductor.execution.version_index import Version, VersionIndex
        from conductor.task_identifier import TaskIdentifier
        from conductor.task_types.run import RunExperiment
        from conductor.utils.git import Git

        self.cli_run = cli_run
        self.errors = errors
        self.Version = Version
        self.VersionIndex = VersionIndex
        self.TaskIdentifier = TaskIdentifier
        self.RunExperiment = RunExperiment
        self.Git = Git
        self.real_index = None
        self.counter = 0

    def index(self):
        if self.real_index is None:
            d = new_dir("vidx")
            self.real_index = self.VersionIndex.create_or_load(pathlib.Path(d, "version_index.sqlite"))
        return self.real_index

    def observe(self, mode, head, git_stub, versions, als, use_sqlite):
        """versions: list of (ts, commit str|None, dirty) in the order the index returns them.
        Returns (selected timestamp | None, [should_run(al) for al in als])."""
        self.counter += 1
        tid = self.TaskIdentifier.from_str("//:t%d" % self.counter)
        vers = [self.Version(t, c, d) for (t, c, d) in versions]
        real = None
        if use_sqlite:
            real = self.index()
            # rows of another task interleaved: WHERE task_identifier = ? must filter them
            other = self.TaskIdentifier.from_str("//:o%d" % self.counter)
            for v in vers:
                real.insert_output_version(tid, v)
                real.insert_output_version(other, self.Version(v.timestamp + 1000, "zz", False))
        ctx = su.StubCtx(mode, head, git_stub, su.OrderedIndex(real, vers), self.Git.Commit)
        task = self.RunExperiment(identifier=tid, cond_file_path=pathlib.Path("/proj/COND"), deps=[], run="true", args=[], options={}, parallelizable=False)
        p = task.get_output_path(ctx)
        sel = None if p is None else int(p.name.rsplit(".", 1)[1])
        runs = [bool(task.should_run(ctx, al)) for al in als]
        return sel, runs


def cname(i):
    return None if i is None else "c%d" % i


# ============================================================================= (a) stub correspondence
def fixed_tables():
    """history: 6=R root; 2=B, 3=B', 4=X children of R; 7=M merge of B and B'; 1=A child of M = HEAD;
    5 is not an object of the history.  dist(A,B) = dist(A,B') = 3."""
    order = [6, 2, 3, 4, 7, 1]  # creation order
    idx = {c: i for i, c in enumerate(order)}
    dag = Dag([[], [idx[6]], [idx[6]], [idx[6]], [idx[2], idx[3]], [idx[7]]])
    anc, dist = {}, {}
    for a in range(1, 9):
        for b in range(1, 9):
            if a in idx and b in idx:
                anc[(a, b)] = dag.is_ancestor(idx[a], idx[b])
                dist[(a, b)] = dag.distance(idx[a], idx[b])
            else:
                anc[(a, b)] = False
                dist[(a, b)] = 0
    return {"name": "history", "head": 1, "anc": anc, "dist": dist}


def random_tables(rng, k):
    """arbitrary functions (the theorems and the model do not assume that git is sane)"""
    anc, dist = {}, {}
    for a in range(1, 9):
        for b in range(1, 9):
            anc[(a, b)] = rng.random() < 0.55
            dist[(a, b)] = rng.randrange(0, 3)
    return {"name": "random%d" % k, "head": rng.randrange(1, 6), "anc": anc, "dist": dist}


def tables_defs(tab):
    pairs = sorted(p for p, v in tab["anc"].items() if v)
    dists = sorted((p, v) for p, v in tab["dist"].items() if v)
    return (
        "Definition anc_pairs : list (N * N) := %s.\n" % clist(["(%d, %d)" % p for p in pairs])
        + "Definition dist_tab : list (N * N * N) := %s.\n" % clist(["(%d, %d, %d)" % (p[0], p[1], v) for p, v in dists])
        + "Definition is_anc (a b : N) : bool := existsb (fun p => (fst p =? a) && (snd p =? b)) anc_pairs.\n"
        + "Definition dist (a b : N) : N := match find (fun p => (fst (fst p) =? a) && (snd (fst p) =? b)) dist_tab with Some p => snd p | None => 0 end.\n"
    )


STUB_DEFS = """%(tables)s
Definition cpool : list (option N) := %(cpool)s.
Definition als : list (option N) := %(als)s.
Definition tss : list (list N) := %(tss)s.
Fixpoint tuples {A} (pool : list A) (n : nat) : list (list A) :=
  match n with O => [[]] | S k => flat_map (fun c => map (cons c) (tuples pool k)) pool end.
Fixpoint mkvs (tsl : list N) (cs : list (option N)) (i : nat) : list version :=
  match tsl, cs with
  | t :: tsl', c :: cs' => {| ts := t; commit := c; dirty := Nat.odd i |} :: mkvs tsl' cs' (S i)
  | _, _ => []
  end.
Definition obs (m : mode) (vs : list version) : N :=
  let sel := select is_anc dist m vs in
  pack (ser_opt ser_N (option_map ts sel) ++ flat_map (fun al => ser_bool (should_run is_anc al sel)) als).
Definition group (m : mode) (tsl : list N) : N :=
  pack (map (fun cs => obs m (mkvs tsl cs 0)) (tuples cpool (length tsl))).
Definition single (m : mode) (tsl : list N) : list N :=
  map (fun cs => obs m (mkvs tsl cs 0)) (tuples cpool (length tsl)).
"""


def mode_coq(mode, head):
    return {"nogit": "NoGit", "nocommits": "NoCommits"}.get(mode) or "(Head %d)" % head


def stub_case(impl, tab, mode, tsl, cs, als, use_sqlite):
    git_stub = su.StubGit({(cname(a), cname(b)): v for (a, b), v in tab["anc"].items()}, {(cname(a), cname(b)): v for (a, b), v in tab["dist"].items()})
    versions = [(t, cname(c), i % 2 == 1) for i, (t, c) in enumerate(zip(tsl, cs))]
    use_sqlite = (use_sqlite or mode != "head") and len(set(tsl)) == len(tsl)
    sel, runs = impl.observe(mode, cname(tab["head"]), git_stub, versions, [cname(a) for a in als], use_sqlite)
    return sel, runs


def stub_oracle(chk, tab, mode, tsl, cs, als, sel, runs):
    """the documented rule on what the implementation answered (distinct timestamps only)"""
    if len(set(tsl)) != len(tsl) or sum(1 for v in chk.violations if v["kind"] == "impl-violation") >= 25:
        return
    head = tab["head"]
    vs = [V(t, c, i % 2 == 1) for i, (t, c) in enumerate(zip(tsl, cs))]
    exp = oracle_select(mode, vs, lambda c: tab["anc"][(head, c)], lambda c: tab["dist"][(head, c)])
    exp_ts = None if exp is None else exp.ts
    inp = {"part": "stub", "mode": mode, "table": tab_json(tab), "timestamps": list(tsl), "commits": list(cs), "at_least": list(als)}
    if sel != exp_ts:
        chk.violation(
            "impl-violation",
            "selection: versions %r (mode %s, HEAD c%d, table %s): implementation selects %r, the documented rule %r" % (list(zip(tsl, cs)), mode, head, tab["name"], sel, exp_ts),
            {"input": inp, "impl_observation": {"selected": sel, "should_run": runs}, "oracle_verdict": {"selected": exp_ts}},
            match_key={"part": "stub-select"}, size=len(tsl),
        )
        return
    for al, got in zip(als, runs):
        want = oracle_rerun(exp, al, lambda a, b: tab["anc"][(a, b)])
        if got != want:
            chk.violation(
                "impl-violation",
                "should_run: selected %r, at_least %r (table %s): implementation says %r, the documented rule %r" % (exp, al, tab["name"], got, want),
                {"input": inp, "impl_observation": {"selected": sel, "should_run": runs}, "oracle_verdict": {"at_least": al, "rerun": want}},
                match_key={"part": "stub-should-run"}, size=len(tsl),
            )
            return


def tab_json(tab):
    return {"name": tab["name"], "head": tab["head"], "anc": sorted([a, b] for (a, b), v in tab["anc"].items() if v), "dist": sorted([a, b, v] for (a, b), v in tab["dist"].items() if v)}


def tab_from_json(j):
    anc = {(a, b): False for a in range(1, 9) for b in range(1, 9)}
    dist = {(a, b): 0 for a in range(1, 9) for b in range(1, 9)}
    for a, b in j["anc"]:
        anc[(a, b)] = True
    for a, b, v in j["dist"]:
        dist[(a, b)] = v
    return {"name": j["name"], "head": j["head"], "anc": anc, "dist": dist}


def ts_tuples(n, distinct):
    out = [list(t) for t in itertools.product(range(1, n + 1), repeat=n)]
    if distinct:
        out = [t for t in out if len(set(t)) == n]
    return out


class _Collector:
    """stands in for Check inside a worker: records violation() calls for the parent"""

    def __init__(self):
        self.violations = []
        self.recorded = []

    def violation(self, *args, **kw):
        self.violations.append({"kind": args[0]})
        self.recorded.append((args, kw))


_WORKER_IMPL = None


def stub_shard_worker(job):
    global _WORKER_IMPL  # pylint: disable=global-statement
    tab, mode, pool, als, part, use_sqlite = job
    if _WORKER_IMPL is None:
        _WORKER_IMPL = Impl()
        _WORKER_IMPL.real_index = None
    impl = _WORKER_IMPL
    col = _Collector()
    groups, kinds, samples = [], {}, []
    total = nontrivial = 0
    for tsl in part:
        packed = []
        for cs in itertools.product(pool, repeat=len(tsl)):
            try:
                sel, runs = stub_case(impl, tab, mode, tsl, cs, als, use_sqlite)
            except Exception as e:  # pylint: disable=broad-except
                import traceback

                # the code under test asking the STUB context for something the stub does not have (a new Git / VersionIndex method) says
                # nothing about the property: the stub no longer fits -- a broken tie, no failing input (the real-git parts judge the change)
                stub_gap = isinstance(e, AttributeError) and any(n in str(e) for n in ("StubGit", "StubIndex", "StubCtx", "StubTaskIndex", "_Stub"))
                col.violation("tie-broken" if stub_gap else "impl-violation", "RunExperiment raised %s: %s for versions %r (mode %s, table %s, --at-least candidates %r)" % (type(e).__name__, e, list(zip(tsl, cs)), mode, tab["name"], als),
                              {"input": {"part": "stub", "mode": mode, "table": tab_json(tab), "timestamps": list(tsl), "commits": list(cs), "at_least": list(als)},
                               "impl_observation": traceback.format_exc()[-1500:], "oracle_verdict": "no exception"}, match_key={"part": "stub-raise"}, size=len(tsl))
                sel, runs = None, [False] * len(als)
            else:
                stub_oracle(col, tab, mode, tsl, cs, als, sel, runs)
            packed.append(pack(ser_opt(ser_n, sel) + [x for r in runs for x in ser_bool(r)]))
            total += 1
            kind = "none" if sel is None else ("null" if cs[tsl.index(sel)] is None else "anc")
            kinds[kind] = kinds.get(kind, 0) + 1
            if len(tsl) >= 2 and sum(1 for c in cs if c is not None) >= 1:
                nontrivial += 1
            if len(tsl) == 4 and sel is not None and total % 4001 == 0 and len(samples) < 1:
                samples.append({"part": "stub", "mode": mode, "table": tab["name"], "versions": [[t, cname(c)] for t, c in zip(tsl, cs)], "selected": sel, "should_run": dict(zip([str(cname(a)) for a in als], runs))})
        groups.append((tsl, packed))
    return {"groups": groups, "kinds": kinds, "samples": samples, "total": total, "nontrivial": nontrivial, "violations": col.recorded[:25]}


def part_stub(chk, impl, tier):
    rng = chk.rng
    T0 = fixed_tables()
    P6 = [None, 1, 2, 3, 4, 5]
    P8 = [None, 1, 2, 3, 4, 5, 6, 7]
    A6 = [None, 1, 2, 3, 4]
    A8 = [None, 1, 2, 3, 7, 6]
    # plan entries: (table, mode, pool, at_least list, ts tuples, use_sqlite)
    plan = []
    for n in range(0, 4):
        plan.append((T0, "head", P6, A6, ts_tuples(n, False), False))
    plan.append((T0, "head", P6, A6, ts_tuples(4, True), True))
    for mode in ("nogit", "nocommits"):
        for n in range(0, 4):
            plan.append((T0, mode, P6, A6, ts_tuples(n, True), True))
    nrand = 3 if tier == "quick" else 16
    for k in range(nrand):
        plan.append((random_tables(rng, k), "head", P6, A6, ts_tuples(3, False), False))
    if tier != "quick":
        plan.append((T0, "head", P6, A6, [t for t in ts_tuples(4, False) if len(set(t)) < 4], False))  # equal timestamps
        plan.append((T0, "head", P8, A8, ts_tuples(4, True), True))
        plan.append((T0, "head", [None, 1, 2, 4], A6, ts_tuples(5, True), True))
        plan.append((T0, "nogit", [None, 1, 4], [None, 1], ts_tuples(5, True), True))
        for k in range(4):
            plan.append((random_tables(rng, 100 + k), "head", P6, A6, ts_tuples(4, True), True))

    # the implementation side of every shard runs in forked workers (one sqlite index each)
    jobs = []
    for tab, mode, pool, als, tss, use_sqlite in plan:
        per_tuple = max(1, len(pool) ** (len(tss[0]) if tss else 0))
        step = max(1, min(64, 4000 // per_tuple))
        for off in range(0, len(tss), step):
            jobs.append((tab, mode, pool, als, tss[off:off + step], use_sqlite))
    new_dir("stub")
    with concurrent.futures.ProcessPoolExecutor(max_workers=NCPU, mp_context=multiprocessing.get_context("fork")) as ex:
        outs = list(ex.map(stub_shard_worker, jobs))
    shards = []  # (defs, mode expr, groups [(tsl, [case packed])], meta)
    total = 0
    n_nontrivial = 0
    for (tab, mode, pool, als, part, _us), out in zip(jobs, outs):
        total += out["total"]
        n_nontrivial += out["nontrivial"]
        for k, v in out["kinds"].items():
            chk.count("stub-selected", k, v)
        for smp in out["samples"]:
            chk.sample(smp)
        for args, kw in out["violations"]:
            if sum(1 for v in chk.violations if v["kind"] in ("impl-violation", "tie-broken")) < 25:
                if args[0] == "tie-broken":
                    kw = dict(kw, found_input=False)
                chk.violation(*args, **kw)
        defs = STUB_DEFS % {
            "tables": tables_defs(tab),
            "cpool": clist([copt(c, str) for c in pool]),
            "als": clist([copt(a, str) for a in als]),
            "tss": clist([clist([str(t) for t in tsl]) for tsl in part]),
        }
        shards.append((defs, mode_coq(mode, tab["head"]), out["groups"], (tab, mode, pool, als)))
    nontrivial = range(n_nontrivial)
    chk.coverage["evaluations"] += total
    chk.coverage["disagreements_checked"] += total
    chk.count("stub", "cases", total)
    if not chk.coq.model_ok:
        return total, len(nontrivial)

    def one(sh):
        defs, mexpr, groups, _meta = sh
        want = [pack(p) for _tsl, p in groups]
        return run_packed_cases(IMPORTS, defs, ["map (group %s) tss" % mexpr], [want])[0]

    with concurrent.futures.ThreadPoolExecutor(max_workers=NCPU) as ex:
        results = list(ex.map(one, shards))
    agree = 0
    for sh, (ok, bad, raw) in zip(shards, results):
        defs, mexpr, groups, (tab, mode, pool, als) = sh
        if not ok:
            chk.violation("correspondence", "model evaluation failed (stub shard): %s" % raw[-300:], {"theorem_or_tie": "correspondence Model/Select.v (stub)", "coq_output": raw}, found_input=False)
            continue
        if not bad:
            agree += sum(len(p) for _t, p in groups)
            continue
        # second stage: find the exact case inside the first disagreeing group
        g = bad[0]
        tsl, packed = groups[g] if g < len(groups) else (None, None)
        case = None
        if tsl is not None:
            ok2, bad2, raw2 = run_packed_cases(IMPORTS, defs, ["single %s %s" % (mexpr, clist([str(t) for t in tsl]))], [packed])[0]
            if ok2 and bad2:
                cs = list(itertools.product(pool, repeat=len(tsl)))[bad2[0]]
                try:
                    sel, runs = stub_case(impl, tab, mode, tsl, cs, als, False)
                except Exception as e:  # pylint: disable=broad-except
                    sel, runs = None, "raised %s: %s" % (type(e).__name__, e)
                case = {"part": "stub", "mode": mode, "table": tab_json(tab), "timestamps": list(tsl), "commits": list(cs), "at_least": list(als), "impl": {"selected": sel, "should_run": runs}}
        chk.violation(
            "correspondence",
            "Model/Select.v and RunExperiment disagree (mode %s, table %s) at %r" % (mode, tab["name"], case and {k: case[k] for k in ("timestamps", "commits", "at_least", "impl")}),
            {"theorem_or_tie": "correspondence Model/Select.v select/should_run vs task_types/run.py", "input": case, "mismatching_groups": bad[:10]},
            found_input=False,
        )
    chk.coverage["traces_validated_against_impl"] += agree
    return total, len(nontrivial)


def replay_stub(chk, impl, inp):
    tab = tab_from_json(inp["table"])
    tsl, cs, als = inp["timestamps"], inp["commits"], inp["at_least"]
    sel, runs = stub_case(impl, tab, inp["mode"], tsl, cs, als, False)
    print("replay(stub): versions=%r mode=%s head=c%d -> implementation selects %r, should_run %r" % (list(zip(tsl, cs)), inp["mode"], tab["head"], sel, dict(zip(map(str, als), runs))))
    stub_oracle(chk, tab, inp["mode"], tsl, cs, als, sel, runs)
    if chk.coq.model_ok:
        defs = STUB_DEFS % {"tables": tables_defs(tab), "cpool": "[]", "als": clist([copt(a, str) for a in als]), "tss": "[]"}
        expr = "[obs %s (mkvs %s %s 0)]" % (mode_coq(inp["mode"], tab["head"]), clist([str(t) for t in tsl]), clist([copt(c, str) for c in cs]))
        want = [pack(ser_opt(ser_n, sel) + [x for r in runs for x in ser_bool(r)])]
        ok, bad, raw = run_packed_cases(IMPORTS, defs, [expr], [want])[0]
        print("replay(stub): model %s the implementation" % ("agrees with" if ok and not bad else "DISAGREES with"))
        if not ok or bad:
            chk.violation("correspondence", "model and implementation disagree on the replayed case", {"theorem_or_tie": "correspondence Model/Select.v", "input": inp}, found_input=False)


# ============================================================================= (f) flags
ERRS = ["CannotSetBothCommitFlags", "CannotSetAgainAndCommit", "CommitFlagUnsupported", "InvalidCommitSymbol", "AtLeastCommitNotAncestor"]


class _Captured(Exception):
    def __init__(self, run_again, at_least_commit):
        super().__init__()
        self.run_again = run_again
        self.at_least_commit = at_least_commit


def run_main_with_stub(impl, argv, ctx):
    """parse argv with the real `cond run` parser and call the real cli.run.main with a stub
    context; returns ('plan', run_again, commit) | ('rejected', error class name) | ('other', text)"""
    cli_run = impl.cli_run
    parser = argparse.ArgumentParser()
    parser.add_argument("--debug", action="store_true")
    sub = parser.add_subparsers()
    cli_run.register_command(sub)
    err = io.StringIO()
    try:
        with contextlib.redirect_stderr(err):
            args = parser.parse_args(["run"] + argv)
    except SystemExit:
        return ("other", "argparse: " + err.getvalue()[-200:])

    class FakeContext:
        @staticmethod
        def from_cwd():
            return ctx

    class FakePlanner:
        def __init__(self, c):
            pass

        def create_plan_for(self, task_id, run_again=False, at_least_commit=None):
            raise _Captured(run_again, at_least_commit)

    saved = (cli_run.Context, cli_run.ExecutionPlanner, signal.getsignal(signal.SIGINT), signal.getsignal(signal.SIGTERM))
    cli_run.Context, cli_run.ExecutionPlanner = FakeContext, FakePlanner
    try:
        with contextlib.redirect_stderr(err):
            try:
                args.func(args)
                return ("other", "main returned")
            except _Captured as c:
                return ("plan", bool(c.run_again), c.at_least_commit)
            except SystemExit:
                text = err.getvalue()
                for name in ERRS:
                    e = getattr(impl.errors, name)(symbol=args.at_least)
                    if text.strip() == "ERROR: " + e.printable_message():
                        return ("rejected", name)
                return ("other", text[-300:])
    finally:
        cli_run.Context, cli_run.ExecutionPlanner = saved[0], saved[1]
        signal.signal(signal.SIGINT, saved[2])
        signal.signal(signal.SIGTERM, saved[3])


FLAG_DEFS = """Definition rp (tab : list (str * N)) (s : str) : option N :=
  match find (fun p => str_eqb (fst p) s) tab with Some p => Some (snd p) | None => None end.
Definition is_anc (pairs : list (N * N)) (a b : N) : bool := existsb (fun p => (fst p =? a) && (snd p =? b)) pairs.
Definition ser_outcome (o : outcome) : list N :=
  match o with
  | Plan a oc => [1] ++ ser_bool a ++ ser_opt ser_N oc
  | Rejected e => [0; match e with CannotSetBothCommitFlags => 0 | CannotSetAgainAndCommit => 1 | CommitFlagUnsupported => 2 | InvalidCommitSymbol => 3 | AtLeastCommitNotAncestor => 4 end]
  end.
Definition fl (pairs : list (N * N)) (tab : list (str * N)) (a : bool) (al : option str) (tc : bool) (m : mode) : N :=
  pack (ser_outcome (validate_flags (is_anc pairs) (rp tab) {| f_again := a; f_at_least := al; f_this_commit := tc |} m)).
"""


def ser_outcome(o):
    if o[0] == "plan":
        return [1] + ser_bool(o[1]) + ser_opt(ser_n, None if o[2] is None else int(o[2][1:]))
    return [0, ERRS.index(o[1])]


def flag_worlds(rng, tier):
    """(name, rev table symbol->id, ancestor pairs (h, c))"""
    worlds = [
        ("sane", {"HEAD": 1, "good": 2, "side": 4}, [(1, 1), (1, 2)]),
        ("head-unresolvable", {"good": 2}, [(1, 1), (1, 2)]),
        ("head-not-own-ancestor", {"HEAD": 1, "good": 2, "side": 4}, [(1, 2), (1, 4)]),
    ]
    for k in range(2 if tier == "quick" else 12):
        rev = {s: rng.randrange(1, 5) for s in ("HEAD", "good", "side", "bad") if rng.random() < 0.7}
        pairs = [(1, c) for c in range(1, 5) if rng.random() < 0.5]
        worlds.append(("random%d" % k, rev, pairs))
    return worlds


def flag_argv(again, at_least, this_commit, style):
    argv = []
    if again:
        argv.append("-a" if style else "--again")
    if at_least is not None:
        argv += [["--at-least", at_least], ["-c", at_least], ["--at-least=" + at_least]][style % 3]
    if this_commit:
        argv.append("--this-commit")
    argv.append("//:t")
    if style == 1:
        argv = argv[-1:] + argv[:-1]
    return argv


def part_flags(chk, impl, tier, only=None):
    rng = chk.rng
    cases = []
    exprs = []
    want = []
    for name, rev, pairs in flag_worlds(rng, tier):
        for mode in ("nogit", "nocommits", "head"):
            for again in (False, True):
                for this_commit in (False, True):
                    for at_least in (None, "HEAD", "good", "side", "bad"):
                        for style in ((0, 1, 2) if (again or at_least) else (0,)):
                            cases.append((name, rev, pairs, mode, again, this_commit, at_least, style))
    if only is not None:
        cases = [only]
    n_acc = 0
    for name, rev, pairs, mode, again, this_commit, at_least, style in cases:
        git_stub = su.StubGit({(cname(a), cname(b)): True for a, b in pairs}, {}, {s: cname(c) for s, c in rev.items()})
        ctx = su.StubCtx(mode, "c1", git_stub, None, impl.Git.Commit)
        argv = flag_argv(again, at_least, this_commit, style)
        got = run_main_with_stub(impl, argv, ctx)
        inp = {"part": "flags", "world": [name, rev, [list(p) for p in pairs]], "mode": mode, "again": again, "this_commit": this_commit, "at_least": at_least, "style": style, "argv": argv}
        exp = oracle_flags(again, at_least, this_commit, mode, 1, rev.get, lambda h, c: (h, c) in pairs)
        got_o = ("rejected",) if got[0] == "rejected" else (("plan", got[1], None if got[2] is None else int(got[2][1:])) if got[0] == "plan" else got)
        if only is not None:
            print("replay(flags): cond run %s [mode %s, world %s] -> %r; documented: %r" % (" ".join(argv), mode, name, got, exp))
        if got_o != exp:
            chk.violation(
                "impl-violation",
                "flags: `cond run %s` in mode %s (world %s): implementation %r, documentation %r" % (" ".join(argv), mode, name, got, exp),
                {"input": inp, "impl_observation": list(got), "oracle_verdict": list(exp)},
                match_key={"part": "flags"}, size=len(argv),
            )
        if got[0] == "plan":
            n_acc += 1
        chk.count("flags", got[0] if got[0] != "rejected" else got[1])
        tab = clist(["(%s, %d)" % (cstr(s), c) for s, c in sorted(rev.items())])
        exprs.append("fl %s %s %s %s %s %s" % (clist(["(%d, %d)" % p for p in pairs]), tab, cbool(again), copt(at_least, cstr), cbool(this_commit), mode_coq(mode, 1)))
        want.append(pack(ser_outcome(got)) if got[0] in ("plan", "rejected") else 0)
        if got[0] == "other":
            chk.violation("correspondence", "flags: unexpected behaviour of cli.run.main for %r: %r" % (argv, got), {"theorem_or_tie": "correspondence validate_flags vs cli/run.py", "input": inp, "impl_observation": list(got)}, found_input=False)
    chk.coverage["evaluations"] += len(cases)
    chk.coverage["disagreements_checked"] += len(cases)
    chk.count("flags", "cases", len(cases))
    if chk.coq.model_ok:
        ok, bad, raw = run_packed_cases(IMPORTS, FLAG_DEFS, [clist(exprs)], [want])[0]
        if not ok:
            chk.violation("correspondence", "model evaluation failed (flags): %s" % raw[-300:], {"theorem_or_tie": "correspondence validate_flags", "coq_output": raw}, found_input=False)
        elif bad:
            c = cases[bad[0]]
            chk.violation(
                "correspondence",
                "Model/Select.v validate_flags and cli/run.py disagree for %r (mode %s, world %s)" % (flag_argv(c[4], c[6], c[5], c[7]), c[3], c[0]),
                {"theorem_or_tie": "correspondence validate_flags vs cli/run.py:validate_args/main", "input": {"part": "flags", "world": [c[0], c[1], [list(p) for p in c[2]]], "mode": c[3], "again": c[4], "this_commit": c[5], "at_least": c[6], "style": c[7]}, "mismatching_indices": bad[:20]},
                found_input=False,
            )
        else:
            chk.coverage["traces_validated_against_impl"] += len(cases)
            if only is not None:
                print("replay(flags): model agrees with the implementation")
    return len(cases), n_acc


# ============================================================================= (b) commit graphs vs real git
def gitdag_worker(job):
    """build the history with real git, ask conductor's Git wrapper; returns observations"""
    root, parents, pairs = job
    su.setup_git_env()
    os.dup2(os.open(os.devnull, os.O_WRONLY), 2)  # git's complaints about the unknown object
    setup_impl_path()
    from conductor.utils.git import Git

    dag = Dag(parents)
    shas = su.build_git_dag(root, dag)
    g = Git(pathlib.Path(root))
    n = len(parents)
    obs = []
    for a, b in pairs:
        sa = shas[a] if a < n else su.UNKNOWN_SHA
        sb = shas[b] if b < n else su.UNKNOWN_SHA
        anc = bool(g.is_ancestor(sa, candidate_ancestor_hash=sb))
        dist = None
        if a < n and b < n:
            dist = int(g.get_distance(sa, sb))
        obs.append((anc, dist))
    # HEAD: attached to a branch, then detached, must both report the chosen commit
    head = pairs[0][0] if pairs and pairs[0][0] < n else n - 1
    su.git(root, "update-ref", "refs/heads/main", shas[head])
    cur1 = g.current_commit()
    su.git(root, "checkout", "-q", "--detach", shas[0])
    cur2 = g.current_commit()
    heads = (cur1 is not None and cur1.hash == shas[head], cur2 is not None and cur2.hash == shas[0])
    return obs, heads


def part_gitdag(chk, tier, only=None):
    rng = chk.rng
    ndags = 10 if tier == "quick" else 120
    jobs = []
    base = new_dir("gitdag")
    if only is not None:
        jobs.append((os.path.join(base, "r"), only["parents"], [tuple(p) for p in only["pairs"]]))
    else:
        for k in range(ndags):
            n = rng.randrange(2, 11)
            dag = su.random_dag(rng, n, p_merge=rng.choice([0.15, 0.3, 0.5]))
            head = rng.randrange(n)
            pairs = [(head, c) for c in range(n + 1)] + [(n, head)]
            allp = [(a, b) for a in range(n) for b in range(n) if a != head]
            rng.shuffle(allp)
            pairs += allp[: (25 if tier == "quick" else 100)]
            jobs.append((os.path.join(base, "r%d" % k), dag.parents, pairs))
            chk.count("gitdag-shape", "merges=%d" % min(3, sum(1 for p in dag.parents if len(p) > 1)))
    with concurrent.futures.ProcessPoolExecutor(max_workers=NCPU, mp_context=multiprocessing.get_context("fork")) as ex:
        results = list(ex.map(gitdag_worker, jobs))
    exprs, want = [], []
    npairs = 0
    for (root, parents, pairs), (obs, heads) in zip(jobs, results):
        dag = Dag(parents)
        n = len(parents)
        if not all(heads):
            chk.violation("impl-violation", "Git.current_commit does not report HEAD (attached, detached) = %r" % (heads,), {"input": {"part": "gitdag", "parents": parents, "pairs": [list(p) for p in pairs]}, "impl_observation": list(heads)}, match_key={"part": "gitdag-head"}, size=n)
        flat = []
        for (a, b), (anc, dist) in zip(pairs, obs):
            npairs += 1
            exp_anc = a < n and b < n and dag.is_ancestor(a, b)
            exp_dist = dag.distance(a, b) if (a < n and b < n) else None
            if only is not None:
                print("replay(gitdag): is_ancestor(c%d, c%d)=%r distance=%r; on the graph: %r / %r" % (a, b, anc, dist, exp_anc, exp_dist))
            if anc != exp_anc or dist != exp_dist:
                chk.violation(
                    "impl-violation",
                    "git wrapper vs commit graph %r: is_ancestor(c%d, candidate c%d)=%r (graph: %r), get_distance=%r (graph: %r)" % (parents, a, b, anc, exp_anc, dist, exp_dist),
                    {"input": {"part": "gitdag", "parents": parents, "pairs": [[a, b]]}, "impl_observation": {"is_ancestor": anc, "distance": dist}, "oracle_verdict": {"is_ancestor": exp_anc, "distance": exp_dist}},
                    match_key={"part": "gitdag"}, size=n,
                )
                break
            flat += ser_bool(anc) + ser_opt(ser_n, dist)
        want.append(pack(flat))
        exprs.append(
            "pack (flat_map (fun p => ser_bool (dag_is_ancestor %s (fst p) (snd p)) ++ ser_opt ser_N (if known %s (fst p) && known %s (snd p) then Some (dag_distance %s (fst p) (snd p)) else None)) %s)"
            % (dag.coq(), dag.coq(), dag.coq(), dag.coq(), clist(["(%d, %d)" % (a + 1, b + 1) for a, b in pairs]))
        )
    chk.coverage["evaluations"] += npairs
    chk.coverage["disagreements_checked"] += npairs
    chk.count("gitdag", "histories", len(jobs))
    chk.count("gitdag", "pairs", npairs)
    if chk.coq.model_ok:
        ok, bad, raw = run_packed_cases(IMPORTS, "", [clist(exprs)], [want])[0]
        if not ok:
            chk.violation("correspondence", "model evaluation failed (commit graphs): %s" % raw[-300:], {"theorem_or_tie": "correspondence dag_is_ancestor/dag_distance", "coq_output": raw}, found_input=False)
        elif bad:
            root, parents, pairs = jobs[bad[0]]
            chk.violation(
                "correspondence",
                "Model/Select.v dag_is_ancestor/dag_distance disagree with real git on the history %r" % (parents,),
                {"theorem_or_tie": "correspondence dag_is_ancestor/dag_distance vs git merge-base/rev-list through utils/git.py", "input": {"part": "gitdag", "parents": parents, "pairs": [list(p) for p in pairs]}},
                found_input=False,
            )
        else:
            chk.coverage["traces_validated_against_impl"] += npairs
            if only is not None:
                print("replay(gitdag): Coq commit-graph functions agree with real git")
    return npairs


# ============================================================================= (c) end to end
COND_FILE = '''run_experiment(name="e", run="echo x > $COND_OUT/o.txt")
run_experiment(name="e2", run="printf '%s' \\"$COND_DEPS\\" > $COND_OUT/deps.txt", deps=[":e"])
run_command(name="d", run="printf '%s' \\"$COND_DEPS\\" > $COND_OUT/deps.txt", deps=[":e", ":e2"])
'''
TASKS = ("e", "e2")


class Project:
    """a real project driven by a script of steps; records observations and expectations"""

    def __init__(self, script):
        from implrun import make_project

        self.root = make_project({"COND": COND_FILE, ".gitignore": "cond-out\n", "cond_config.toml": ""}, git=True)
        self.script = script
        self.commits = []  # shas, creation order
        self.parents = []
        self.syms = {}  # symbol -> commit index, as created by this harness
        self.git_on = False
        self.disabled = False
        self.nfile = 0
        self.checks = []  # dicts for the model comparison
        self.violations = []
        self.stats = {}
        self.log = []

    # --- git side
    def g(self, *args, check=True):
        return su.git(self.root, *args, check=check)

    def head(self):
        if not self.git_on:
            return None
        p = self.g("rev-parse", "HEAD", check=False)
        if p.returncode != 0:
            return None
        return self.commits.index(p.stdout.strip())

    def mode(self):
        if not self.git_on or self.disabled:
            return "nogit"
        return "nocommits" if self.head() is None else "head"

    def new_commit(self, parents):
        sha = self.g("rev-parse", "HEAD").stdout.strip()
        real = self.g("rev-list", "--parents", "-n", "1", sha).stdout.split()[1:]
        assert real == [self.commits[p] for p in parents], (real, parents)
        self.commits.append(sha)
        self.parents.append(list(parents))
        return len(self.commits) - 1

    def step(self, st):
        op = st[0]
        self.log.append(list(st))
        self.stats[op] = self.stats.get(op, 0) + 1
        if op in ("branch", "detach", "checkout", "merge") and self.commits and not self.disabled:
            self.g("checkout", "-q", "--", ".", check=False)  # drop uncommitted edits before moving HEAD
        if op == "init":
            if len(st) > 1 and st[1] == "separate":
                # the repository data lives elsewhere and `.git` is a FILE (as in linked worktrees and submodules)
                self.g("init", "-q", "-b", "main", "--separate-git-dir", self.root + "-gitdir")
            elif len(st) > 1 and st[1] == "nested":
                # the Conductor project (the directory holding cond_config.toml) is a SUB-DIRECTORY of the repository:
                # there is no `.git` entry beside cond_config.toml
                su.git(os.path.dirname(self.root), "init", "-q", "-b", "main")
            else:
                self.g("init", "-q", "-b", "main")
            self.git_on = True
        elif op == "commit":
            h = self.head()
            self.nfile += 1
            with open(os.path.join(self.root, "f%d.txt" % self.nfile), "w") as f:
                f.write("x\n")
            self.g("add", "-A")
            self.g("commit", "-q", "-m", "c%d" % self.nfile)
            self.new_commit([] if h is None else [h])
        elif op == "branch":  # new branch at commit st[1] (index modulo), checked out
            c = st[1] % len(self.commits)
            name = "b%d" % len([s for s in self.syms if s.startswith("b")])
            self.g("checkout", "-q", "-b", name, self.commits[c])
            self.syms[name] = None  # moving ref: resolved at use
        elif op == "detach":
            c = st[1] % len(self.commits)
            self.g("checkout", "-q", "--detach", self.commits[c])
        elif op == "checkout":
            names = sorted(s for s in self.syms if s.startswith("b")) + ["main"]
            self.g("checkout", "-q", names[st[1] % len(names)])
        elif op == "merge":
            h = self.head()
            c = st[1] % len(self.commits)
            p = self.g("merge", "--no-ff", "-q", "-m", "m", self.commits[c], check=False)
            now = self.g("rev-parse", "HEAD").stdout.strip()
            if now not in self.commits:
                self.new_commit([h, c])
        elif op == "tag":  # lightweight
            c = st[1] % len(self.commits)
            name = "lt%d" % len(self.syms)
            self.g("tag", name, self.commits[c])
            self.syms[name] = c
        elif op == "atag":  # annotated
            c = st[1] % len(self.commits)
            name = "at%d" % len(self.syms)
            self.g("tag", "-a", name, "-m", "annotated", self.commits[c])
            self.syms[name] = c
        elif op == "dirty":
            with open(os.path.join(self.root, "COND"), "a") as f:
                f.write("# touched\n")
        elif op == "disable":
            self.disabled = st[1]
            with open(os.path.join(self.root, "cond_config.toml"), "w") as f:
                f.write("disable_git = true\n" if st[1] else "")
        elif op == "inject":  # a version restored from elsewhere: (task, kind, older?)
            self.inject(st[1], st[2], st[3])
        elif op == "run":
            self.check_run(st[1])
        elif op == "where":
            self.check_where()
        else:
            raise ValueError(op)

    # --- index side
    def rows(self):
        from implrun import index_rows

        return index_rows(self.root)

    def versions(self, task, rows=None):
        out = []
        for t, ts, sha, dirty in (rows if rows is not None else self.rows()):
            if t == "//:" + task:
                c = None if sha is None else (self.commits.index(sha) if sha in self.commits else "u:" + sha[:6])
                out.append(V(ts, c, bool(dirty)))
        return out

    def inject(self, task, kind, older):
        rows = self.rows()
        all_ts = [r[1] for r in rows] or [1700000000]
        ts = min(all_ts) - 1 if older else max(all_ts) + 1
        sha = {"null": None, "unknown": su.UNKNOWN_SHA}.get(kind, None)
        if kind == "commit":
            sha = self.commits[older % len(self.commits)] if self.commits else None
        os.makedirs(os.path.join(self.root, "cond-out"), exist_ok=True)
        p = os.path.join(self.root, "cond-out", "version_index.sqlite")
        if not os.path.exists(p):
            from implrun import run_cond

            run_cond(["where", "//:e"], self.root)  # lets conductor create the index
        conn = sqlite3.connect(p)
        conn.execute("INSERT INTO version_index VALUES (?, ?, ?, 0)", ("//:" + task, ts, sha))
        conn.commit()
        conn.close()
        os.makedirs(os.path.join(self.root, "cond-out", "%s.task.%d" % (task, ts)), exist_ok=True)

    # --- expectations
    def world(self):
        dag = Dag(self.parents)
        h = self.head()
        mode = self.mode()

        def anc(c):
            return isinstance(c, int) and h is not None and dag.is_ancestor(h, c)

        def dist(c):
            return dag.distance(h, c)

        def is_anc(a, b):
            return isinstance(a, int) and isinstance(b, int) and dag.is_ancestor(a, b)

        return dag, h, mode, anc, dist, is_anc

    def resolve(self, sym):
        """what the symbol names, from what this harness created (not from git rev-parse)"""
        h = self.head()
        if sym == "HEAD":
            return h
        if sym == "HEAD~1":
            return self.parents[h][0] if h is not None and self.parents[h] else None
        if sym.startswith("sha:"):
            return int(sym[4:]) % len(self.commits)
        if sym.startswith("abbrev:"):
            return int(sym[7:]) % len(self.commits)
        if sym in self.syms and self.syms[sym] is not None:
            return self.syms[sym]
        if sym == "main" or sym in self.syms:  # branch: ask git for the tip (plain ref lookup)
            p = self.g("rev-parse", "--verify", "-q", "refs/heads/" + sym, check=False)
            return self.commits.index(p.stdout.strip()) if p.returncode == 0 else None
        return None

    def sym_arg(self, sym):
        if sym.startswith("sha:"):
            return self.commits[int(sym[4:]) % len(self.commits)] if self.commits else "0" * 40
        if sym.startswith("abbrev:"):
            return self.commits[int(sym[7:]) % len(self.commits)][:10] if self.commits else "0" * 10
        return sym

    def violation(self, kind, summary, replay, match_key):
        self.violations.append((kind, summary, replay, match_key))

    def replay_obj(self):
        return {"part": "e2e", "script": [list(s) for s in self.script[: len(self.log)]]}

    def check_where(self):
        from implrun import run_cond, strip_ansi

        dag, h, mode, anc, dist, _ = self.world()
        obs = {}
        for task in TASKS:
            vs = self.versions(task)
            exp = oracle_select(mode, vs, anc, dist)
            r = run_cond(["where", "//:" + task], self.root)
            out = strip_ansi(r.out).strip()
            got = None
            if r.code == 0 and out.startswith(os.path.join(self.root, "cond-out", task + ".task.")):
                got = int(out.rsplit(".", 1)[1])
            obs[task] = got
            self.stats["where"] = self.stats.get("where", 0) + 1
            kind = "none" if exp is None else ("fallback" if exp.commit is None and mode == "head" else ("newest" if mode != "head" else "closest"))
            self.stats["where-" + kind] = self.stats.get("where-" + kind, 0) + 1
            if mode == "head":
                comp = [v for v in vs if v.commit is not None and anc(v.commit)]
                if any(v.commit is not None and not anc(v.commit) for v in vs):
                    self.stats["where-with-foreign-versions"] = self.stats.get("where-with-foreign-versions", 0) + 1
                if comp and len({v.commit for v in comp if dist(v.commit) == min(dist(w.commit) for w in comp)}) > 1:
                    self.stats["where-equal-distance-tie"] = self.stats.get("where-equal-distance-tie", 0) + 1
                if exp is not None and any(v.ts > exp.ts for v in vs):
                    self.stats["where-selected-is-not-newest"] = self.stats.get("where-selected-is-not-newest", 0) + 1
            if got != (None if exp is None else exp.ts):
                self.violation(
                    "impl-violation",
                    "`cond where //:%s` (mode %s, HEAD c%s, history %r) reports version %r; recorded versions %r; the documented rule selects %r" % (task, mode, h, self.parents, got, vs, exp),
                    {"input": self.replay_obj(), "impl_observation": {"where": out, "code": r.code, "err": strip_ansi(r.err)[-200:]}, "oracle_verdict": repr(exp)},
                    {"part": "e2e-where"},
                )
        return obs

    def check_run(self, flagspec):
        # a `cond run` that had to be killed after the timeout (a hang is the business of C09,
        # not of this property) is counted and the step is tried once more on the new state
        if self.check_run_once(flagspec, final=False) == "timeout":
            self.stats["run-timeout-retried"] = self.stats.get("run-timeout-retried", 0) + 1
            self.check_run_once(flagspec, final=True)

    def check_run_once(self, flagspec, final):
        """flagspec: {'again': bool, 'at_least': symbol|None, 'this_commit': bool}"""
        from implrun import run_cond, strip_ansi, cached_wording as implrun_cached_wording

        where = self.check_where()
        dag, h, mode, anc, dist, is_anc = self.world()
        before = self.rows()
        again, sym, tc = flagspec.get("again", False), flagspec.get("at_least"), flagspec.get("this_commit", False)
        argv = ["run", "//:d"] + (["--again"] if again else []) + (["--at-least", self.sym_arg(sym)] if sym is not None else []) + (["--this-commit"] if tc else [])
        known_syms = {}
        for s in set([sym] if sym is not None else []) | {"HEAD"}:
            if mode == "head" and self.resolve(s) is not None:
                known_syms[self.sym_arg(s)] = self.resolve(s)
        exp_f = oracle_flags(again, None if sym is None else self.sym_arg(sym), tc, mode, h, known_syms.get, lambda a, b: dag.is_ancestor(a, b))
        r = run_cond(argv, self.root, timeout=60)
        if r.signaled is not None and not final:
            return "timeout"
        out = strip_ansi(r.out) + strip_ansi(r.err)
        after = self.rows()
        new = [x for x in after if x not in before]
        executed = {t: any(x[0] == "//:" + t for x in new) for t in TASKS}
        cw = implrun_cached_wording()
        cached_line = {t: (cw[0] + "//:" + t + cw[1]) in out for t in TASKS}
        self.stats["run"] = self.stats.get("run", 0) + 1
        rep = self.replay_obj()
        observation = {"argv": argv, "code": r.code, "executed": executed, "cached_line": cached_line, "output_tail": out[-400:]}
        chk_rec = {"mode": mode, "head": h, "parents": [list(p) for p in self.parents], "flags": [again, None if sym is None else self.sym_arg(sym), tc], "syms": dict(known_syms),
                   "versions": {t: [v.key() for v in self.versions(t, before)] for t in TASKS}, "where": where, "executed": None, "argv": argv}
        if exp_f[0] == "rejected":
            self.stats["run-rejected"] = self.stats.get("run-rejected", 0) + 1
            if r.code == 0 or new or "ERROR" not in out:
                self.violation("impl-violation", "`cond %s` (mode %s) must be rejected according to cli/run.md but exit=%d, new versions %r" % (" ".join(argv), mode, r.code, new),
                               {"input": rep, "impl_observation": observation, "oracle_verdict": "rejected"}, {"part": "e2e-flags"})
            if r.code != 0 and not new:
                self.checks.append(chk_rec)
            return
        _, run_again, C = exp_f
        if r.code != 0:
            self.violation("impl-violation", "`cond %s` (mode %s, HEAD c%s) is a documented combination but failed: %s" % (" ".join(argv), mode, h, out[-200:]),
                           {"input": rep, "impl_observation": observation, "oracle_verdict": "accepted"}, {"part": "e2e-flags"})
            return
        paths = {}
        for t in TASKS:
            vs = self.versions(t, before)
            sel = oracle_select(mode, vs, anc, dist)
            want = run_again or oracle_rerun(sel, C, is_anc)
            tag = "again" if run_again else ("at-least" if C is not None else "plain")
            self.stats["run-%s-%s" % (tag, "exec" if want else "cached")] = self.stats.get("run-%s-%s" % (tag, "exec" if want else "cached"), 0) + 1
            mk = {"part": "e2e-run"}
            if sym is not None and sym.startswith("at"):
                mk = {"at_least": "annotated-tag"}
            if executed[t] != want or cached_line[t] == want:
                self.violation(
                    "impl-violation",
                    "`cond %s` (mode %s, HEAD c%s, history %r): //:%s was %s (cached line: %r) but must be %s: selected version %r, --at-least commit %r, recorded %r"
                    % (" ".join(argv), mode, h, self.parents, t, "executed" if executed[t] else "not executed", cached_line[t], "executed" if want else "taken from the cache", sel, C, vs),
                    {"input": rep, "impl_observation": observation, "oracle_verdict": {"task": t, "selected": repr(sel), "at_least_commit": C, "must_run": want}},
                    mk,
                )
                return
            ts = [x[1] for x in new if x[0] == "//:" + t][0] if executed[t] else sel.ts
            paths[t] = os.path.join(self.root, "cond-out", "%s.task.%d" % (t, ts))
        # COND_DEPS of the dependents
        deps_d = open(os.path.join(self.root, "cond-out", "d.task", "deps.txt")).read()
        if deps_d != paths["e"] + ":" + paths["e2"]:
            self.violation("impl-violation", "COND_DEPS of //:d after `cond %s` is %r, expected the selected/new versions %r" % (" ".join(argv), deps_d, paths),
                           {"input": rep, "impl_observation": dict(observation, cond_deps=deps_d), "oracle_verdict": paths}, {"part": "e2e-deps"})
        if executed["e2"]:
            deps_e2 = open(os.path.join(paths["e2"], "deps.txt")).read()
            if deps_e2 != paths["e"]:
                self.violation("impl-violation", "COND_DEPS of //:e2 after `cond %s` is %r, expected %r" % (" ".join(argv), deps_e2, paths["e"]),
                               {"input": rep, "impl_observation": dict(observation, cond_deps=deps_e2), "oracle_verdict": paths["e"]}, {"part": "e2e-deps"})
        chk_rec["executed"] = executed
        self.checks.append(chk_rec)


def e2e_worker(script):
    su.setup_git_env()
    setup_impl_path()
    p = Project(script)
    try:
        for st in script:
            p.step(st)
    except Exception as ex:  # pylint: disable=broad-except
        import traceback

        p.violations.append(("correspondence", "e2e driver failed at step %d %r: %s" % (len(p.log), p.log[-1:] and p.log[-1], traceback.format_exc()[-600:]), {"theorem_or_tie": "e2e driver", "input": p.replay_obj()}, None))
    return {"checks": p.checks, "violations": p.violations, "stats": p.stats, "script": script}


R = lambda **kw: ("run", kw)  # noqa: E731


def script_tags():
    """D14: --at-least with hashes, branches, lightweight and annotated tags"""
    return [
        ("init",), ("commit",), R(), ("tag", 0), ("atag", 0),
        R(at_least="at1"),            # version recorded exactly at the tagged commit: cached
        R(at_least="lt0"), R(at_least="sha:0"), R(at_least="abbrev:0"), R(at_least="main"),
        ("commit",),                  # HEAD = c1, versions at c0
        R(), R(at_least="at1"),
        ("atag", 1), R(at_least="at2"),          # tag at HEAD: strict ancestor -> re-run
        R(at_least="at2"),                       # now cached
    ]


def script_tags2():
    """rejections, HEAD~1, non-ancestor branch, --this-commit twice"""
    return [
        ("init",), ("commit",), ("tag", 0), ("commit",), R(this_commit=True), R(this_commit=True),
        R(at_least="HEAD~1"), R(at_least="nosuchsymbol"), R(again=True, at_least="lt0"), R(this_commit=True, at_least="lt0"),
        ("branch", 0), ("commit",), R(at_least="main"),  # main is not an ancestor of the side branch
        R(at_least="lt0"), R(again=True),
    ]


def script_merge():
    """two branches with a version each, merged: equal distances, newest wins; detached HEAD"""
    return [
        ("init",), ("commit",), ("branch", 0), ("commit",), R(),       # b0: c1, versions at c1
        ("checkout", 1), ("commit",), R(),                             # main: c2: no ancestor version -> run
        ("merge", 1), ("where",), R(),                                 # c3 = merge(c2, c1): dist 2 both -> newest
        R(at_least="b0"), R(at_least="sha:2"), R(at_least="sha:0"),
        ("detach", 1), ("where",), R(), ("detach", 0), ("where",), R(at_least="sha:0"),
        ("checkout", 1), R(this_commit=True), R(this_commit=True),
    ]


def script_modes():
    """no repository -> empty repository -> first commit (all commits null: fall-back)"""
    return [
        R(), R(again=True), R(at_least="HEAD"), R(this_commit=True),
        ("init",), ("where",), R(), R(this_commit=True), R(again=True),
        ("commit",), ("where",), R(), R(this_commit=True), R(),
    ]


def script_modes2():
    """foreign and commit-less versions mixed with ancestor versions -> git disabled"""
    return [
        ("init",), ("inject", "e", "null", 0), ("commit",), ("where",), R(this_commit=True),
        ("inject", "e", "unknown", 0), ("inject", "e2", "null", 0), ("where",), R(),
        ("inject", "e", "null", 1), ("commit",), R(),
        ("disable", True), ("where",), R(), R(at_least="HEAD"), ("disable", False), ("where",), ("dirty",), R(this_commit=True),
    ]


def script_foreign():
    """only versions from commits that are not ancestors (another branch, unknown objects)"""
    return [
        ("init",), ("commit",), ("branch", 0), ("commit",), R(), ("checkout", 1), ("where",),
        ("inject", "e", "null", 1), ("inject", "e2", "unknown", 0), ("where",), R(), ("where",),
    ]


def script_random(rng, n):
    s = [("init",), ("commit",)]
    if rng.random() < 0.4:
        s.append(R())  # otherwise the first versions are recorded somewhere later in the history
    ncommits = 1
    for _ in range(n):
        x = rng.random()
        if x < 0.22:
            s.append(("commit",)); ncommits += 1
        elif x < 0.32:
            s.append(("branch", rng.randrange(ncommits)))
        elif x < 0.40:
            s.append(("detach", rng.randrange(ncommits)))
        elif x < 0.48:
            s.append(("checkout", rng.randrange(8)))
        elif x < 0.60:
            s.append(("merge", rng.randrange(ncommits))); ncommits += 1  # upper bound only
        elif x < 0.66:
            s.append(("inject", rng.choice(TASKS), rng.choice(["null", "unknown", "commit"]), rng.randrange(2)))
        elif x < 0.70:
            s.append(("atag", rng.randrange(ncommits)))
        elif x < 0.74:
            s.append(("dirty",))
        else:
            y = rng.random()
            if y < 0.35:
                s.append(R())
            elif y < 0.5:
                s.append(R(again=True))
            elif y < 0.65:
                s.append(R(this_commit=True))
            else:
                s.append(R(at_least=rng.choice(["sha:%d" % rng.randrange(ncommits), "main", "HEAD~1", "at3", "b0"])))
    s.append(("where",))
    return s


E2E_DEFS = """Definition rp (tab : list (str * N)) (s : str) : option N :=
  match find (fun p => str_eqb (fst p) s) tab with Some p => Some (snd p) | None => None end.
Definition mkv (t : N) (c : option N) (d : bool) : version := {| ts := t; commit := c; dirty := d |}.
Definition e2e (d : dag) (tab : list (str * N)) (a : bool) (al : option str) (tc : bool) (m : mode) (vs1 vs2 : list version) : N :=
  let f := {| f_again := a; f_at_least := al; f_this_commit := tc |} in
  pack (ser_opt ser_N (option_map ts (dag_select d m vs1)) ++ ser_opt ser_N (option_map ts (dag_select d m vs2))
        ++ ser_opt ser_bool (cond_run_executes (dag_is_ancestor d) (dag_distance d) (rp tab) f m vs1)
        ++ ser_opt ser_bool (cond_run_executes (dag_is_ancestor d) (dag_distance d) (rp tab) f m vs2)).
"""


def e2e_coq(c):
    def cid(x):
        if x is None:
            return "None"
        if isinstance(x, int):
            return "(Some %d)" % (x + 1)
        return "(Some %d)" % (900 + int(x[2:], 16) % 97)

    def vs(l):
        return clist(["mkv %d %s %s" % (t, cid(cm), cbool(d)) for (t, cm, d) in l])

    dag = Dag(c["parents"]).coq()
    tab = clist(["(%s, %d)" % (cstr(s), i + 1) for s, i in sorted(c["syms"].items())])
    again, al, tc = c["flags"]
    mode = {"nogit": "NoGit", "nocommits": "NoCommits"}.get(c["mode"]) or "(Head %d)" % (c["head"] + 1)
    expr = "e2e %s %s %s %s %s %s %s %s" % (dag, tab, cbool(again), copt(al, cstr), cbool(tc), mode, vs(c["versions"]["e"]), vs(c["versions"]["e2"]))
    ex = c["executed"]
    want = pack(ser_opt(ser_n, c["where"]["e"]) + ser_opt(ser_n, c["where"]["e2"]) + ser_opt(ser_bool, None if ex is None else ex["e"]) + ser_opt(ser_bool, None if ex is None else ex["e2"]))
    return expr, want


def part_e2e(chk, tier, only=None):
    rng = chk.rng
    if only is not None:
        scripts = [[tuple(s) if s[0] != "run" else ("run", s[1]) for s in only["script"]]]
    else:
        scripts = [script_tags(), script_tags2(), script_merge(), script_modes(), script_modes2(), script_foreign()]
        # the same histories with `.git` being a file (linked worktree / submodule / --separate-git-dir layouts)
        scripts += [[("init", "separate") if st == ("init",) else st for st in sc] for sc in (script_merge(), script_tags())]
        # ... and with the project in a sub-directory of the repository
        scripts += [[("init", "nested") if st == ("init",) else st for st in sc] for sc in (script_merge(), script_foreign())]
        nrand = 4 if tier == "quick" else 60
        for _ in range(nrand):
            scripts.append(script_random(rng, 12 if tier == "quick" else 22))
    new_dir("e2e")  # makes sure the scratch root exists before forking
    with concurrent.futures.ProcessPoolExecutor(max_workers=min(NCPU, 12), mp_context=multiprocessing.get_context("fork")) as ex:
        results = list(ex.map(e2e_worker, scripts))
    exprs, want, recs = [], [], []
    nobs = 0
    for res in results:
        for kind, summary, rep, mk in res["violations"]:
            if only is not None:
                print("replay(e2e): " + summary)
            chk.violation(kind, summary, rep, found_input=(kind == "impl-violation"), match_key=mk, size=len(rep.get("input", {}).get("script", [])))
        for k, v in res["stats"].items():
            chk.count("e2e", k, v)
        for c in res["checks"]:
            e, w = e2e_coq(c)
            exprs.append(e)
            want.append(w)
            recs.append((c, res["script"]))
            nobs += 1
    if only is not None:
        print("replay(e2e): %d run/where observations, %d violation(s)" % (nobs, sum(len(r["violations"]) for r in results)))
    chk.coverage["evaluations"] += nobs
    chk.coverage["disagreements_checked"] += nobs
    chk.count("e2e", "projects", len(scripts))
    if recs:
        c = recs[min(len(recs) - 1, 7)][0]
        chk.sample({"part": "e2e", "argv": c["argv"], "mode": c["mode"], "head": c["head"], "history": c["parents"], "recorded": c["versions"], "where": c["where"], "executed": c["executed"]})
    if chk.coq.model_ok and exprs:
        ok, bad, raw = run_packed_cases(IMPORTS, E2E_DEFS, [clist(exprs)], [want])[0]
        if not ok:
            chk.violation("correspondence", "model evaluation failed (e2e): %s" % raw[-400:], {"theorem_or_tie": "correspondence e2e", "coq_output": raw}, found_input=False)
        elif bad:
            c, script = recs[bad[0]]
            chk.violation(
                "correspondence",
                "Model/Select.v (dag_select / cond_run_executes) disagrees with `cond %s`: mode %s, HEAD c%s, history %r, recorded %r, observed where=%r executed=%r"
                % (" ".join(c["argv"]), c["mode"], c["head"], c["parents"], c["versions"], c["where"], c["executed"]),
                {"theorem_or_tie": "correspondence Model/Select.v vs cond where / cond run (end to end)", "input": {"part": "e2e", "script": [list(s) for s in script]}, "observation": c, "mismatching_indices": bad[:10]},
                found_input=False,
            )
        else:
            chk.coverage["traces_validated_against_impl"] += nobs
            if only is not None:
                print("replay(e2e): model agrees with every observation")
    return nobs


def below_a_cached_experiment(chk):
    """`--this-commit` / `--at-least C` "re-runs exactly the tasks whose selected version is absent, has no commit, or
    is a strict ancestor of C".  Chain  d -> e2 -> e  (d a command, e and e2 experiments): e has its only version at
    commit c0, e2 at c1 = HEAD.  `cond run --this-commit //:d` must therefore re-run e (its selected version is a
    strict ancestor of HEAD).  The planner stops at e2, whose version is current, and never examines e: the same
    pruning as known finding F1, seen through the selection property (known finding F3)."""
    import implrun
    import select_util as su2

    files = {"COND": 'run_experiment(name="e", run="echo e > $COND_OUT/r")\n'
                     'run_experiment(name="e2", run="echo e2 > $COND_OUT/r", deps=[":e"])\n'
                     'run_command(name="d", run="true", deps=[":e2"])\n',
             ".gitignore": "cond-out\n", "cond_config.toml": ""}
    root = implrun.make_project(files, git=True)
    su2.git(root, "init", "-q", "-b", "main")
    su2.git(root, "config", "user.email", "v@example.org")
    su2.git(root, "config", "user.name", "v")
    su2.git(root, "add", "-A")
    su2.git(root, "commit", "-q", "-m", "c0")
    r1 = implrun.run_cond(["run", "//:e"], root)
    open(os.path.join(root, "note.txt"), "w").write("1\n")
    su2.git(root, "add", "-A")
    su2.git(root, "commit", "-q", "-m", "c1")
    r2 = implrun.run_cond(["run", "//:e2"], root)
    before = sorted(d for d in os.listdir(os.path.join(root, "cond-out")) if d.startswith("e.task."))
    r3 = implrun.run_cond(["run", "--this-commit", "//:d"], root)
    after = sorted(d for d in os.listdir(os.path.join(root, "cond-out")) if d.startswith("e.task."))
    chk.coverage["evaluations"] += 1
    chk.count("e2e", "below-a-cached-experiment")
    if r1.code != 0 or r2.code != 0 or r3.code != 0 or len(before) != 1:
        chk.violation("impl-violation", "below_a_cached_experiment: the set-up commands failed: %r %r %r %r" % (r1, r2, r3, before),
                      {"input": {"part": "below-cached", "files": files}, "impl_observation": repr((r1, r2, r3))}, match_key={"part": "below-cached-setup"}, size=1)
        return
    if after == before:
        chk.violation("impl-violation", "`cond run --this-commit //:d` (d -> e2 -> e; e recorded at c0 only, e2 at c1 = HEAD) did not re-run //:e although its selected version "
                      "is a strict ancestor of HEAD: the planner stops at //:e2, whose version is current, and never examines //:e",
                      {"input": {"part": "below-cached", "files": files, "commands": [["run", "//:e"], "commit", ["run", "//:e2"], ["run", "--this-commit", "//:d"]]},
                       "impl_observation": {"versions_of_e_before": before, "after": after, "stdout": r3.out[-300:]},
                       "oracle_verdict": "//:e should have been executed"}, match_key={"part": "below-cached"}, size=3)
    else:
        chk.coverage["traces_validated_against_impl"] += 1


def where_in_a_long_lived_process(chk):
    """`conductor.lib.where()` reports the version selected for the HEAD that is current WHEN IT IS CALLED: one Python
    process (a notebook, an analysis script) calls it repeatedly from the same directory while the repository moves on
    -- a new commit with a new version, a detached checkout of the old commit, back to the branch.  After every move the
    answer must be the version the documented rule selects for the new HEAD (never one recorded at a commit that is not
    an ancestor of HEAD).  (Seed C05/j: the Context was kept between calls, so HEAD was the one of the FIRST call.)"""
    import common
    import implrun
    import select_util as su2

    files = {"COND": 'run_experiment(name="e", run="echo e > $COND_OUT/r")\n', ".gitignore": "cond-out\n", "cond_config.toml": ""}
    root = implrun.make_project(files, git=True)
    for a in (("init", "-q", "-b", "main"), ("config", "user.email", "v@example.org"), ("config", "user.name", "v"), ("add", "-A"), ("commit", "-q", "-m", "c0")):
        su2.git(root, *a)
    c0 = su2.git(root, "rev-parse", "HEAD").stdout.strip()
    server = ("import sys, os\nos.chdir(%r)\nimport conductor.lib as L\n"
              "for line in sys.stdin:\n"
              "    try:\n        print('OK ' + str(L.where('//:e')), flush=True)\n"
              "    except BaseException as ex:\n        print('ERR ' + type(ex).__name__, flush=True)\n") % root
    env = dict(os.environ, PYTHONPATH=common.SRC, PYTHONDONTWRITEBYTECODE="1")
    env.pop("COND_OUT", None)
    proc = subprocess.Popen([sys.executable, "-c", server], stdin=subprocess.PIPE, stdout=subprocess.PIPE, stderr=subprocess.DEVNULL, text=True, env=env, cwd=root)

    def ask():
        proc.stdin.write("w\n")
        proc.stdin.flush()
        return proc.stdout.readline().strip()

    def version_at(commit):
        rows = [r for r in implrun.index_rows(root) if r[0] == "//:e" and r[2] == commit]
        return os.path.join(root, "cond-out", "e.task.%d" % rows[-1][1]) if rows else None

    steps, problems = [], []
    try:
        r1 = implrun.run_cond(["run", "//:e"], root)
        first = ask()                                            # HEAD = c0, one version (at c0)
        steps.append(("HEAD=c0, version at c0", first, version_at(c0)))
        open(os.path.join(root, "note.txt"), "w").write("1\n")
        su2.git(root, "add", "-A")
        su2.git(root, "commit", "-q", "-m", "c1")
        c1 = su2.git(root, "rev-parse", "HEAD").stdout.strip()
        r2 = implrun.run_cond(["run", "//:e", "--this-commit"], root)
        steps.append(("HEAD=c1 after a new commit, versions at c0 and c1", ask(), version_at(c1)))
        su2.git(root, "checkout", "-q", "--detach", c0)
        steps.append(("HEAD=c0 (detached), the version at c1 is no ancestor's", ask(), version_at(c0)))
        su2.git(root, "checkout", "-q", "main")
        steps.append(("HEAD=c1 again", ask(), version_at(c1)))
        if r1.code != 0 or r2.code != 0 or version_at(c0) is None or version_at(c1) is None or version_at(c0) == version_at(c1):
            problems.append("harness: the set-up runs failed: %r %r" % (r1, r2))
    finally:
        try:
            proc.stdin.close()
        except OSError:
            pass
        proc.wait(timeout=30)
    chk.coverage["evaluations"] += len(steps)
    chk.count("e2e", "where-in-a-long-lived-process", len(steps))
    for what, got, want in steps:
        if got != "OK " + str(want):
            problems.append("%s: conductor.lib.where('//:e') returned %r, the documented rule selects %r" % (what, got, want))
    for msg in problems[:2]:
        chk.violation("impl-violation", "one process calling conductor.lib.where() while HEAD moves: %s" % msg,
                      {"input": {"part": "where-long-lived", "files": files, "steps": [s[0] for s in steps]}, "impl_observation": [list(map(str, s)) for s in steps], "oracle_verdict": msg},
                      match_key={"part": "where-long-lived"}, size=4)
    if not problems:
        chk.coverage["traces_validated_against_impl"] += len(steps)


def versions_from_an_old_format_index(chk):
    """Versions recorded by Conductor <= 0.4 (index format 1: task, timestamp and a `git_commit` column that never held a real
    commit) are versions "without a commit": the documented rule falls back to the newest of them when no recorded version
    carries a commit -- so in a git project they stay usable after the in-place upgrade: `cond where` reports the newest one,
    a dependent finds it in COND_DEPS and the experiment is not run again.  (Seeds C05/k and C02/l: the upgrade kept the
    placeholder of the old column as a commit hash; no version was selectable any more.)"""
    import implrun
    import select_util as su2

    for placeholder in ("unknown", ""):
        files = {"COND": 'run_experiment(name="e", run="echo new > $COND_OUT/r")\nrun_command(name="d", run="printf %s \\"$COND_DEPS\\" > $COND_OUT/deps.txt", deps=[":e"])\n',
                 ".gitignore": "cond-out\n", "cond_config.toml": ""}
        root = implrun.make_project(files, git=True)
        for a in (("init", "-q", "-b", "main"), ("config", "user.email", "v@example.org"), ("config", "user.name", "v"), ("add", "-A"), ("commit", "-q", "-m", "c0")):
            su2.git(root, *a)
        out = os.path.join(root, "cond-out")
        for ts in (1600000000, 1600000500):
            os.makedirs(os.path.join(out, "e.task.%d" % ts))
            open(os.path.join(out, "e.task.%d" % ts, "r"), "w").write("old %d\n" % ts)
        conn = sqlite3.connect(os.path.join(out, "version_index.sqlite"))
        conn.execute("CREATE TABLE version_index (task_identifier TEXT NOT NULL, timestamp INTEGER NOT NULL, git_commit TEXT NOT NULL, PRIMARY KEY (task_identifier, timestamp))")
        conn.executemany("INSERT INTO version_index VALUES ('//:e', ?, ?)", [(1600000500, placeholder), (1600000000, placeholder)])
        conn.execute("PRAGMA user_version = 1")
        conn.commit()
        conn.close()
        newest = os.path.join(out, "e.task.1600000500")
        w = implrun.run_cond(["where", "//:e"], root)
        r = implrun.run_cond(["run", "//:d"], root)
        deps_file = os.path.join(out, "d.task", "deps.txt")
        deps = open(deps_file).read() if os.path.exists(deps_file) else None
        dirs = sorted(d for d in os.listdir(out) if d.startswith("e.task."))
        chk.coverage["evaluations"] += 2
        chk.count("e2e", "old-format-index", 2)
        problems = []
        if w.code != 0 or implrun.strip_ansi(w.out).strip() != newest:
            problems.append("`cond where //:e` -> exit %s %r, the newest commit-less version is %s" % (w.code, implrun.strip_ansi(w.out + w.err).strip()[-200:], newest))
        if r.code != 0 or deps != newest:
            problems.append("`cond run //:d` -> exit %s, COND_DEPS of //:d = %r (the newest commit-less version is %s)" % (r.code, deps, newest))
        if dirs != ["e.task.1600000000", "e.task.1600000500"]:
            problems.append("//:e was executed again although a usable version exists: %r" % dirs)
        for msg in problems[:2]:
            chk.violation("impl-violation", "a git project whose index was written by Conductor <= 0.4 (format 1, git_commit=%r): %s" % (placeholder, msg),
                          {"input": {"part": "old-format-index", "placeholder": placeholder, "files": files}, "impl_observation": {"where": [w.code, w.out[-200:]], "run": [r.code, r.out[-300:]], "dirs": dirs, "deps": deps},
                           "oracle_verdict": msg}, match_key={"part": "old-format-index"}, size=3)
        if not problems:
            chk.coverage["traces_validated_against_impl"] += 2


def where_agrees_with_cond_deps_during_the_run(chk):
    """The version a dependent is GIVEN (COND_DEPS) is the version `cond where` / conductor.lib.where() REPORT when asked
    while that dependent runs -- from inside the dependent or from a second terminal --, and the one they report after the
    run; also with --again over an earlier version.  (Seed C05/l: versions were committed to the index once per plan, so
    a query made during the run saw the previous version, or none.)"""
    import implrun

    py = sys.executable
    ask = "%s -m conductor where //:e > $COND_OUT/where.txt 2> $COND_OUT/where.err; printf %%s \"$COND_DEPS\" > $COND_OUT/deps.txt" % py
    files = {"COND": 'run_experiment(name="e", run="echo x > $COND_OUT/r")\nrun_command(name="d", run=%r, deps=[":e"])\n' % ask}
    root = implrun.make_project(files)
    steps = []
    for argv in (["run", "//:d"], ["run", "//:d", "--again"]):
        r = implrun.run_cond(argv, root, timeout=120)
        dd = os.path.join(root, "cond-out", "d.task")
        rd = lambda n: open(os.path.join(dd, n)).read().strip() if os.path.exists(os.path.join(dd, n)) else None  # noqa: E731
        after = implrun.run_cond(["where", "//:e"], root)
        steps.append((" ".join(argv), r.code, rd("deps.txt"), rd("where.txt"), rd("where.err"), implrun.strip_ansi(after.out).strip()))
    chk.coverage["evaluations"] += len(steps)
    chk.count("e2e", "where-during-the-run", len(steps))
    problems = []
    for what, code, deps, inside, err, after in steps:
        if code != 0 or not deps:
            problems.append("`cond %s` exited %s (COND_DEPS %r)" % (what, code, deps))
        elif inside != deps:
            problems.append("`cond %s`: //:d was given COND_DEPS=%s but `cond where //:e`, asked while //:d ran, reported %r %s" % (what, deps, inside, (err or "")[-120:]))
        elif after != deps:
            problems.append("`cond %s`: //:d was given COND_DEPS=%s but `cond where //:e` reports %r after the run" % (what, deps, after))
    for msg in problems[:2]:
        chk.violation("impl-violation", "the version handed to a dependent vs the version `cond where` reports: %s" % msg,
                      {"input": {"part": "where-during-the-run", "files": files}, "impl_observation": [list(map(str, st)) for st in steps], "oracle_verdict": msg},
                      match_key={"part": "where-during-the-run"}, size=3)
    if not problems:
        chk.coverage["traces_validated_against_impl"] += len(steps)


# ============================================================================= entry point
def run(tier, seed, replay=None):
    chk = Check("C05", tier, seed)
    chk.build_proofs(["Model/Select.vo", "Lib/Cmp.vo", "Refuted/SelectOld.vo"])
    su.setup_git_env()
    impl = Impl()
    if not chk.coq.model_ok:
        chk.violation("correspondence", "model does not build: " + chk.coq.log[-400:], {"theorem_or_tie": "build of Model/Select.vo", "log": chk.coq.log[-3000:]}, found_input=False)

    if replay is not None:
        inp = replay.get("input") or {}
        part = inp.get("part")
        if part == "stub":
            replay_stub(chk, impl, inp)
        elif part == "flags":
            w = inp["world"]
            part_flags(chk, impl, tier, only=(w[0], w[1], [tuple(p) for p in w[2]], inp["mode"], inp["again"], inp["this_commit"], inp["at_least"], inp["style"]))
        elif part == "gitdag":
            part_gitdag(chk, tier, only=inp)
        elif part == "e2e":
            part_e2e(chk, tier, only=inp)
        else:
            print("replay: nothing to re-run for this record (%s)" % replay.get("theorem_or_tie", replay.get("summary", "")))
        return chk.finish()

    n_stub, n_stub_nt = part_stub(chk, impl, tier)
    n_flags, n_acc = part_flags(chk, impl, tier)
    n_pairs = part_gitdag(chk, tier)
    n_e2e = part_e2e(chk, tier)
    below_a_cached_experiment(chk)
    where_in_a_long_lived_process(chk)
    versions_from_an_old_format_index(chk)
    where_agrees_with_cond_deps_during_the_run(chk)
    import c07 as _c07   # task names are case sensitive: a version of //:Prep is no version of //:prep (seed C07/i)

    _c07.names_differing_in_case(chk)
    chk.coverage["distinct_nontrivial"] = n_stub_nt + n_acc + n_e2e
    chk.coverage["exhaustive"] = True
    chk.coverage["rule"] = (
        "(a) every list of <= 3 versions (timestamps from {1..n} incl. equal ones) and every list of 4 versions with distinct timestamps in every order, commits from "
        "{null, HEAD, two equally distant ancestors, a non-ancestor, an unknown object}, x at-least in {none, HEAD, the ancestors, the non-ancestor}, in modes head/no-git/no-commits "
        "(+ arbitrary random git tables), on RunExperiment.get_output_path/should_run with a stub context over the real sqlite VersionIndex, and on the Coq model; "
        "(f) every flag combination x spelling x mode x symbol world through the real argparse parser and cli.run.main; "
        "(b) generated histories (<= 10 commits, merges, several roots, unknown object) through real git via utils.git.Git vs reachability on the graph (Python and Coq); "
        "(c) scripted + random real projects: cond where, cached/executed tasks, COND_DEPS. "
        "non-trivial = stub cases with >= 2 versions and >= 1 commit + accepted flag cases + e2e observations; thorough widens every scope (see distribution)"
    )
    chk.assumptions.append("git: `merge-base --is-ancestor c h` = c is an ancestor of or equal to h; `rev-list --count h ^c` = commits reachable from h and not from c (tested in part b against reachability on generated histories, not proved)")
    chk.assumptions.append("'without git' is whatever makes `git rev-parse --git-dir` fail (not a repository -- but also a repository git refuses to read, e.g. 'dubious ownership' after a chown): "
                           "Conductor then selects the newest version; 'no commits' is whatever makes `git rev-parse HEAD` fail (also an orphan branch in a repository that has commits); "
                           "a missing git binary without disable_git is a crash, not a mode")
    chk.assumptions.append("the selection rule is proved and checked per task; which tasks a run EXAMINES is the planner's traversal, which stops at a cached experiment (known finding F1 / F3)")
    chk.assumptions.append("sqlite: PRIMARY KEY (task_identifier, timestamp) makes timestamps of one task pairwise distinct (hypothesis DistinctTs of C05_select_spec / C05_perm)")
    if tier == "thorough":
        chk.run_coqchk()
    return chk.finish()
