"""C06 -- only successful runs become versions; the index never outlives its data.

proofs : coq/Props/C06.v (invariant Inv of the step-level model Model/Store.v, preserved by every
         step of every command, by the task processes, by kills and by a crash after any step).
tie    : line-level crash injector.  The real `cond` runs in a forked child under sys.settrace;
         at the k-th line event inside conductor/* the child dies (os._exit).  The parent waits
         for the task processes the dead cond left behind, opens the sqlite file with a fresh
         connection and lists cond-out.  quick: every k inside run_task_executable.py /
         version_index.py / restore.py plus a sample; thorough: every k.  The abstract state must
         be one of the model's crash states ([crash_states] of Model/Store.v, evaluated in Coq), in
         the model's order, and every model crash state must be observed.
oracle : independent of the model -- every committed row's directory exists, holds exactly one
         execution's output with its finished marker, that execution exited 0, args.json /
         options.json are complete JSON whenever the task has args / options, and the row carries
         the commit hash and dirty flag of HEAD.
"""
import collections
import json
import os
import shutil

import implrun
import store_util as su
from common import Check, coq_eval, parse_eval, parse_nat_list

IMPORTS = "From Conductor Require Import Lib.Str Lib.Cmp Model.Store."
ANCHORS = ("run_task_executable.py", "version_index.py", "restore.py", "shutil.py", "clean.py")
T0 = 1700000000


# ----------------------------------------------------------------------------- scenarios
def T(*a, **k):
    return su.Task(*a, **k)


def shape_mixed():
    return su.Shape([T("e1", 1, args=True, opts=True), T("e2", 2), T("e3", 3, opts=True), T("e4", 4, args=True),
                     T("all", 0, deps=["e1", "e2", "e3", "e4"], kind="group")], "mixed")


def shape_chain():
    return su.Shape([T("e1", 1, args=True), T("e2", 2, deps=["e1"], opts=True), T("e3", 3, deps=["e2"]),
                     T("all", 0, deps=["e3"], kind="group")], "chain")


def shape_two():
    return su.Shape([T("e1", 1, args=True, opts=True), T("e2", 2, path="sub"),
                     T("all", 0, deps=["e1", "e2"], kind="group")], "two")


def scenarios(tier, rng):
    run = lambda root, again, beh, clock: {"kind": "run", "root": root, "again": again, "beh": beh, "clock": clock}  # noqa: E731
    sc = [
        {"name": "mixed-outcomes", "shape": shape_mixed().describe(), "git": False, "setup": [],
         "cmd": run("all", False, {"e2": "fail", "e4": "kill"}, [T0] * 4)},
        {"name": "chain-late-failure", "shape": shape_chain().describe(), "git": False, "setup": [],
         "cmd": run("all", False, {"e2": "faillate"}, [T0, T0 - 5, T0 - 9])},
        {"name": "again-over-unrecorded", "shape": shape_two().describe(), "git": False,
         "setup": [run("e1", False, {"e1": "fail"}, [T0 + 10]), run("e2", False, {}, [T0 + 3])],
         "cmd": run("all", True, {}, [T0 + 10, T0 + 10, T0 + 10])},
        {"name": "restore-two-rows", "shape": shape_two().describe(), "git": False,
         "setup": [run("all", False, {}, [T0, T0])],
         "cmd": {"kind": "restore", "entries": [["e1", T0 + 500], ["e2", T0 + 600]]}},
        # `cond clean` killed inside its rmtree: whatever is still recorded must still have its directory
        {"name": "clean-two-rows", "shape": shape_two().describe(), "git": False,
         "setup": [run("all", False, {}, [T0, T0])], "cmd": {"kind": "clean"}},
        {"name": "git-head", "shape": shape_two().describe(), "git": True, "dirty": True, "setup": [],
         "cmd": run("all", False, {"e2": "fail"}, [T0, T0])},
    ]
    if tier == "thorough":
        shapes = [shape_mixed, shape_chain, shape_two]
        for i in range(4):
            sh = rng.choice(shapes)()
            exps = [t.name for t in sh.tasks if t.kind == "exp"]
            beh1 = {n: rng.choice(["ok", "fail", "kill", "faillate"]) for n in exps}
            beh2 = {n: rng.choice(["ok", "ok", "fail", "kill", "faillate"]) for n in exps}
            t = T0 + rng.randrange(1000)
            sc.append({"name": "random-%d" % i, "shape": sh.describe(), "git": False,
                       "setup": [run("all", False, beh1, [t] * 4)],
                       "cmd": run("all", rng.random() < 0.7, beh2, [t - rng.randrange(0, 3)] * 4)})
    return sc


# ----------------------------------------------------------------------------- oracle (implementation only)
def oracle(project, heads):
    """heads: {invocation id (str) -> (commit|None, dirty)}; returns a list of complaints"""
    out = []
    shape = project.shape
    dirs = su.version_dirs(project)
    for ident, ts, commit, dirty in su.index_rows(project.root):
        path = dirs.get((ident, ts))
        if path is None:
            out.append("row %s@%d has no output directory" % (ident, ts))
            continue
        writers, finished, has_args, has_opts = su.dir_content(path)
        if len(writers) != 1 or finished != writers:
            out.append("row %s@%d: directory holds output of %s, finished markers of %s" % (ident, ts, sorted(writers), sorted(finished)))
            continue
        nonce = next(iter(writers))
        task = next((t for t in shape.tasks if t.ident() == ident), None)
        if task is None:
            out.append("row %s@%d: unknown task" % (ident, ts))
            continue
        for need, fn, val in ((task.args, "args.json", su.ARGS_VALUE), (task.opts, "options.json", su.OPTS_VALUE)):
            if need:
                try:
                    got = json.load(open(os.path.join(path, fn)))
                except (OSError, ValueError) as ex:
                    out.append("row %s@%d: %s missing or incomplete (%s)" % (ident, ts, fn, type(ex).__name__))
                    continue
                if got != val:
                    out.append("row %s@%d: %s holds %r" % (ident, ts, fn, got))
        inv = nonce.split(".")[0]
        if inv.startswith("d"):
            continue  # restored from the donor project: its execution is not in this project's log
        start = os.path.join(project.obs, nonce + ".start")
        if not os.path.exists(start):
            out.append("row %s@%d: no execution %s was ever started" % (ident, ts, nonce))
            continue
        lines = open(start).read().split("\n")
        if lines[0].split("/p/cond-out/", 1)[-1] != path.split("/p/cond-out/", 1)[-1]:
            out.append("row %s@%d: its execution %s was handed %s" % (ident, ts, nonce, lines[0]))
        if lines[2] != "ok":
            out.append("row %s@%d belongs to execution %s which did not exit 0 (%s)" % (ident, ts, nonce, lines[2]))
        if inv in heads and (commit, bool(dirty)) != heads[inv]:
            out.append("row %s@%d carries (%r, %r) but HEAD of its invocation was %r" % (ident, ts, commit, bool(dirty), heads[inv]))
    return out


# ----------------------------------------------------------------------------- one scenario
SCEN = {}


def run_cmd(project, cmd, inv, crash_at=None, trace_file=None):
    shape = project.shape
    if cmd["kind"] == "run":
        argv = ["run", shape.by_name[cmd["root"]].ident()] + (["--again"] if cmd["again"] else [])
        return su.invoke(project, argv, inv, beh=cmd["beh"], clock=cmd["clock"], crash_at=crash_at, trace_file=trace_file)
    if cmd["kind"] == "restore":
        return su.invoke(project, ["restore", cmd["archive_path"]], inv, crash_at=crash_at, trace_file=trace_file)
    if cmd["kind"] == "clean":
        return su.invoke(project, ["clean", "-f"], inv, crash_at=crash_at, trace_file=trace_file, extra_env={"VTRACE_SHUTIL": "1"})
    raise ValueError(cmd["kind"])


def build_archive(shape, entries, workdir):
    flat = su.Shape([su.Task(t.name, t.num, args=t.args, opts=t.opts, path=t.path) for t in shape.tasks if t.kind == "exp"], "donor")
    donor = su.Project(flat, name="donor")
    try:
        for i, (name, ts) in enumerate(sorted(entries, key=lambda e: e[1])):
            su.invoke(donor, ["run", flat.by_name[name].ident(), "--again"], "d%d" % i, clock=[ts])
        recorded = [(r[0], r[1]) for r in sorted(su.index_rows(donor.root), key=lambda r: r[1])]
        out = os.path.join(workdir, "archive.tar.gz")
        su.invoke(donor, ["archive", "-o", out], "da")
        return out, recorded
    finally:
        donor.cleanup()


def prepare(sc):
    """template project after the setup commands, the model text, a traced run of the command"""
    shape = su.Shape.from_description(sc["shape"])
    project = su.Project(shape, git=sc["git"], name="tmpl")
    heads = {}
    head = (None, False)
    if sc["git"]:
        commit = project.git_cmd("rev-parse", "HEAD").strip()
        if sc.get("dirty"):
            with open(os.path.join(project.root, "COND"), "a") as f:
                f.write("# edited\n")
        head = (commit, bool(sc.get("dirty")))
    coq_setup = []
    clock = []
    inv = 0
    for cmd in sc["setup"]:
        inv += 1
        recorded = {t.name for t in shape.tasks if any(r[0] == t.ident() for r in su.index_rows(project.root))}
        _res, readings, _p = run_cmd(project, cmd, inv)
        heads[str(inv)] = head
        clock.extend(readings)
        specs = su.run_specs(shape, cmd["root"], cmd["again"], recorded, cmd["beh"])
        coq_setup.append(su.coq_command({"kind": "run", "specs": specs, "commit": head[0], "dirty": head[1]}))
    cmd = dict(sc["cmd"])
    inv += 1
    heads[str(inv)] = head
    if cmd["kind"] == "run":
        recorded = {t.name for t in shape.tasks if any(r[0] == t.ident() for r in su.index_rows(project.root))}
        specs = su.run_specs(shape, cmd["root"], cmd["again"], recorded, cmd["beh"])
        coq_cmd = su.coq_command({"kind": "run", "specs": specs, "commit": head[0], "dirty": head[1]})
    elif cmd["kind"] == "clean":
        coq_cmd = su.coq_command({"kind": "clean"})
    else:
        arch, recorded = build_archive(shape, cmd["entries"], project.base)
        cmd["archive_path"] = arch
        ents = []
        for ident, ts in recorded:
            t = next(x for x in shape.tasks if x.ident() == ident)
            ents.append({"task": t.num, "ts": ts, "args": t.args, "opts": t.opts})
        coq_cmd = su.coq_command({"kind": "restore", "archive": ents})
    # traced complete run on a copy
    tdir = os.path.join(project.base, "trace")
    tp = project.clone_to(tdir)
    tf = os.path.join(project.base, "trace.json")
    res, readings, _p = run_cmd(tp, cmd, inv, trace_file=tf)
    trace = json.load(open(tf))
    final = su.observe(tp)
    complaints = oracle(tp, heads)
    shutil.rmtree(tdir, ignore_errors=True)
    return {"project": project, "cmd": cmd, "inv": inv, "heads": heads, "coq_setup": coq_setup, "coq_cmd": coq_cmd,
            "clock": clock + readings, "trace": trace, "final": final, "final_exit": res.code, "final_complaints": complaints,
            "keys_only": cmd["kind"] == "restore"}


def crash_job(job):
    r = crash_job_once(job, "")
    if r.get("hung"):
        r = crash_job_once(job, "r")
        r["retried"] = True
    return r


def crash_job_once(job, tag):
    si, k = job
    st = SCEN[si]
    base = os.path.join(st["project"].base, "k%d%s" % (k, tag))
    p = st["project"].clone_to(base)
    try:
        import time as _t

        t0 = _t.time()
        if st["cmd"]["kind"] == "clean" and k % 2 == 1:
            # the order in which rmtree meets the entries of cond-out is the file system's directory order: give the
            # index a fresh directory entry in every other run so that both orders (index first / index last) occur
            co = os.path.join(p.root, "cond-out")
            names = sorted(os.listdir(co))
            for name in [n for n in names if (n.endswith(".sqlite")) == (k % 4 == 1)]:
                os.rename(os.path.join(co, name), os.path.join(co, name + ".moved"))
                os.rename(os.path.join(co, name + ".moved"), os.path.join(co, name))
        res, _readings, _pids = run_cmd(p, st["cmd"], st["inv"], crash_at=k)
        obs = su.observe(p)
        return {"k": k, "exit": res.code, "hung": res.hung, "dur": round(_t.time() - t0, 2), "stdout": implrun.strip_ansi(res.out)[-300:], "stderr": res.err[-300:], "obs": obs, "packed": su.pack_obs(obs, st["keys_only"]), "complaints": oracle(p, st["heads"])}
    finally:
        shutil.rmtree(base, ignore_errors=True)


def model_states(st):
    obs = "observe_keys" if st["keys_only"] else "observe"
    text = (
        "From Coq Require Import List NArith Bool.\n" + IMPORTS + "\nImport ListNotations.\nOpen Scope N_scope.\n"
        + "Definition clk : nat -> N := %s.\n" % su.coq_clock(st["clock"])
        + "Definition s0 : state := play_state clk [%s] init.\n" % ";\n ".join(st["coq_setup"])
        + "Definition cmd : command := %s.\n" % st["coq_cmd"]
        + "Eval vm_compute in (map pack (crash_states clk %s (command_labels s0 cmd) s0)).\n" % obs
        + "Eval vm_compute in (pack (%s (settle clk (run clk (command_labels s0 cmd) s0)))).\n" % obs
    )
    rc, out = coq_eval([("crash_model", text)])[0]
    vals = parse_eval(out)
    if rc != 0 or len(vals) < 2:
        return None, None, out
    return parse_nat_list(vals[0]), parse_nat_list(vals[1])[0], out


def dedupe(seq):
    out = []
    for x in seq:
        if not out or out[-1] != x:
            out.append(x)
    return out


def head_states(chk):
    """the (commit, dirty) pair recorded with a version, in every state of the work tree: clean, a tracked file edited,
    the edit staged, a new file staged, a tracked file removed from the index, only an untracked file -- judged against
    `git rev-parse HEAD` and `git status --porcelain --untracked-files=no`"""
    import subprocess
    import implrun
    import select_util

    env = dict(os.environ, **select_util.GIT_ENV)

    def git(root, *a):
        return subprocess.run(["git"] + list(a), cwd=root, env=env, capture_output=True, text=True, check=True).stdout

    states = [
        ("clean", lambda r: None),
        ("edited-unstaged", lambda r: open(os.path.join(r, "data.txt"), "a").write("x\n")),
        ("edited-staged", lambda r: (open(os.path.join(r, "data.txt"), "a").write("x\n"), git(r, "add", "data.txt"))),
        ("new-file-staged", lambda r: (open(os.path.join(r, "new.txt"), "w").write("n\n"), git(r, "add", "new.txt"))),
        ("removed-from-index", lambda r: git(r, "rm", "-q", "--cached", "other.txt")),
        ("untracked-only", lambda r: open(os.path.join(r, "stray.txt"), "w").write("s\n")),
    ]
    # layouts: the project is the repository / a sub-directory of the repository (no .git entry beside cond_config.toml) /
    # the repository data lives elsewhere and .git is a file (linked worktrees, submodules)
    variants = [(name, mutate, "top") for name, mutate in states] + [(states[0][0], states[0][1], "nested"), (states[1][0], states[1][1], "nested"),
                                                                     (states[2][0], states[2][1], "separate-git-dir")]
    for name, mutate, layout in variants:
        root = implrun.make_project({"COND": 'run_experiment(name="e", run="true")\n', "data.txt": "d\n", "other.txt": "o\n", ".gitignore": "cond-out\n"}, git=True)
        if layout == "nested":
            subprocess.run(["git", "init", "-q", "-b", "main"], cwd=os.path.dirname(root), env=env, check=True, capture_output=True)
        elif layout == "separate-git-dir":
            git(root, "init", "-q", "-b", "main", "--separate-git-dir", root + "-gitdir")
        else:
            git(root, "init", "-q", "-b", "main")
        name = name if layout == "top" else "%s (%s)" % (name, layout)
        git(root, "add", "-A")
        git(root, "commit", "-q", "-m", "c0")
        mutate(root)
        head = git(root, "rev-parse", "HEAD").strip()
        want_dirty = git(root, "status", "--porcelain", "--untracked-files=no").strip() != ""
        res = implrun.run_cond(["run", "//:e"], root, env=env, timeout=60)
        rows = implrun.index_rows(root)
        chk.coverage["evaluations"] += 1
        chk.count("head-state", name)
        got = [(r[2], bool(r[3])) for r in rows]
        if res.code != 0 or got != [(head, want_dirty)]:
            msg = "work tree state %s: the version was recorded with %r, HEAD is (%r, dirty=%r) (cond exit %s)" % (name, got, head, want_dirty, res.code)
            chk.violation("impl-violation", msg, {"input": {"part": "head-states", "state": name}, "impl_observation": {"rows": [list(r) for r in rows], "exit": res.code, "output": (res.out + res.err)[-600:]},
                                                    "oracle_verdict": {"commit": head, "dirty": want_dirty}}, match_key={"head-state": name}, size=1)
        else:
            chk.coverage["traces_validated_against_impl"] += 1


def clean_with_an_index_that_cannot_be_removed(chk):
    """"the index never outlives its data": `cond clean` removes the version index FIRST; when that fails (cond-out is not
    writable for the user: a shared directory, `chmod a-w`, an immutable file) the command must stop -- non-zero -- with
    every recorded version's directory intact, also those in package directories that COULD be removed.  Run without the
    capabilities that let root ignore permissions.  (Seed C06/m: the error was remembered, rmtree ran all the same, and the
    message came afterwards: all rows kept, the outputs of every package gone.)"""
    import shutil
    import subprocess
    import implrun
    from common import PY, SRC

    setpriv = shutil.which("setpriv")
    if os.geteuid() == 0 and setpriv is None:
        chk.coverage["clean_unremovable_index"] = "skipped: needs setpriv when run as root"
        return
    drop = "-dac_override,-dac_read_search,-fowner"
    pre = [setpriv, "--bounding-set=" + drop, "--inh-caps=" + drop] if os.geteuid() == 0 else []
    root = implrun.make_project({"COND": 'run_experiment(name="top", run="echo t > $COND_OUT/r")\n', "pkg/COND": 'run_experiment(name="exp", run="echo e > $COND_OUT/r; mkdir $COND_OUT/d; echo x > $COND_OUT/d/f")\n',
                                 "pkg/deep/COND": 'run_experiment(name="exp", run="echo d > $COND_OUT/r")\n'})
    for t in ("//:top", "//pkg:exp", "//pkg/deep:exp"):
        implrun.run_cond(["run", t], root)
    co = os.path.join(root, "cond-out")
    rows = implrun.index_rows(root)
    snaps = {}
    for t, ts, _c, _d in rows:
        rel = os.path.join(t[2:].split(":")[0], "%s.task.%d" % (t.split(":")[1], ts))
        snaps[rel] = implrun.tree_snapshot(os.path.join(co, rel))
    os.chmod(co, 0o555)                      # entries of cond-out itself (the index, top.task.*, pkg/) cannot be unlinked; what is inside pkg/ can
    try:
        r = subprocess.run(pre + [PY, "-m", "conductor", "clean", "-f"], cwd=root, env=dict(os.environ, PYTHONPATH=SRC), capture_output=True, text=True, timeout=60)
    finally:
        os.chmod(co, 0o755)
    chk.coverage["evaluations"] += 1
    chk.count("clean", "index cannot be removed")
    rows_after = implrun.index_rows(root)
    problems = []
    if len(rows) != 3:
        problems.append("harness: set-up recorded %r" % rows)
    if r.returncode == 0:
        problems.append("`cond clean -f` exited 0 although the version index could not be removed")
    if rows_after != rows:
        problems.append("the recorded versions changed: %r -> %r" % (rows, rows_after))
    for rel, snap in sorted(snaps.items()):
        now = implrun.tree_snapshot(os.path.join(co, rel)) if os.path.isdir(os.path.join(co, rel)) else None
        if now != snap:
            problems.append("the version %s is still recorded but its directory %s" % (rel, "is gone" if now is None else "lost %d of %d entries" % (len(set(snap) - set(now)), len(snap))))
    for msg in problems[:2]:
        chk.violation("impl-violation", "`cond clean -f` in a project whose cond-out is not writable: %s" % msg,
                      {"input": {"part": "clean-unremovable-index", "without_capabilities": bool(pre)}, "impl_observation": {"exit": r.returncode, "stderr": r.stderr[-300:]}, "oracle_verdict": msg},
                      match_key={"part": "clean-unremovable-index"}, size=2)
    if not problems:
        chk.coverage["traces_validated_against_impl"] += 1


def durability_assumption(chk):
    """The model's (and the theorems') view of the version index: a process that dies loses exactly its open
    transaction.  sqlite guarantees that only with an on-disk rollback journal (or WAL) and synchronous writes, so
    the connections the implementation opens are asked for their settings -- every way of opening an index."""
    import pathlib
    import sqlite3
    from common import new_dir, setup_impl_path

    setup_impl_path()
    from conductor.execution.version_index import VersionIndex

    d = new_dir("durab")
    found = {}
    real_connect = sqlite3.connect
    opened = []

    def spy(*a, **kw):
        c = real_connect(*a, **kw)
        opened.append(c)
        return c

    sqlite3.connect = spy
    try:
        p1 = pathlib.Path(d, "version_index.sqlite")
        vi = VersionIndex.create_or_load(p1)          # creates
        vi.commit_changes()
        del vi
        vi = VersionIndex.create_or_load(p1)          # loads
        p2 = pathlib.Path(d, "archive_index.sqlite")
        dest = VersionIndex.create_or_load(p2)        # the archive index
        try:
            vi.copy_entries_to(dest, None, False)
        except Exception:  # pylint: disable=broad-except
            pass
    finally:
        sqlite3.connect = real_connect
    for i, c in enumerate(opened):
        try:
            jm = c.execute("PRAGMA journal_mode").fetchone()[0].lower()
            sy = int(c.execute("PRAGMA synchronous").fetchone()[0])
        except sqlite3.Error as e:
            jm, sy = "closed (%s)" % e, 2
            continue
        found["connection %d" % i] = (jm, sy)
        chk.coverage["evaluations"] += 1
        if jm not in ("delete", "truncate", "persist", "wal") or sy == 0:
            chk.violation("impl-violation", "the version index is opened with journal_mode=%s synchronous=%s: after a kill in the middle of a transaction sqlite cannot roll the "
                          "file back, so recorded versions are not exactly those committed before (the crash model of this property assumes an on-disk journal)" % (jm, sy),
                          {"input": {"part": "durability"}, "impl_observation": found, "oracle_verdict": "journal_mode in delete/truncate/persist/wal and synchronous != OFF"},
                          match_key={"durability": jm}, size=1)
    chk.count("durability", "connections inspected", len(found))
    if not found:
        chk.violation("correspondence", "no sqlite connection of the version index could be inspected", {"theorem_or_tie": "durability assumption of the crash model"}, found_input=False)


def slow_consumer(chk, stall=7.0):
    """"at every instant": whoever reads Conductor's own stdout stalls (a pager, a paused terminal, a slow log collector)
    while a sequential experiment has written more than fits through; the task itself can still exit 0.  As long as the
    forwarding has not finished, stdout.log is incomplete -- and no version row may be visible for it."""
    import subprocess
    import time
    import implrun
    from common import PY, SRC

    root = implrun.make_project({"COND": ""})
    n = 100000
    open(os.path.join(root, "gen.py"), "w").write("import os, sys\nos.write(1, b'x' * %d)\n" % n)
    open(os.path.join(root, "COND"), "w").write('run_experiment(name="e", run="exec %s gen.py")\n' % PY)
    p = subprocess.Popen([PY, "-m", "conductor", "run", "//:e"], cwd=root, env=dict(os.environ, PYTHONPATH=SRC), stdout=subprocess.PIPE, stderr=subprocess.PIPE)
    problems = []
    t0 = time.time()
    seen_row_early = None
    while time.time() - t0 < stall:      # nobody reads p.stdout during this time
        rows = implrun.index_rows(root, while_running=True)
        if rows:
            vd = os.path.join(root, "cond-out", "e.task.%d" % rows[0][1], "stdout.log")
            size = os.path.getsize(vd) if os.path.exists(vd) else -1
            if size != n:
                seen_row_early = (round(time.time() - t0, 1), size)
                break
        time.sleep(0.1)
    try:
        out, err = p.communicate(timeout=30)      # now the consumer reads
    except subprocess.TimeoutExpired:
        p.kill()
        out, err = p.communicate()
        problems.append("harness: cond did not finish after its output was drained")
    chk.coverage["evaluations"] += 1
    chk.count("slow-consumer", "runs")
    if seen_row_early is not None:
        problems.append("a version row was visible %.1f s into the stall while stdout.log held %d of the %d bytes the task wrote" % (seen_row_early[0], seen_row_early[1], n))
    rows = implrun.index_rows(root)
    if p.returncode == 0 and rows:
        vd = os.path.join(root, "cond-out", "e.task.%d" % rows[0][1], "stdout.log")
        size = os.path.getsize(vd) if os.path.exists(vd) else -1
        if size != n:
            problems.append("after the run the recorded version's stdout.log holds %d of %d bytes" % (size, n))
    elif p.returncode != 0:
        problems.append("harness: cond exited %s: %r" % (p.returncode, (out + err)[-200:]))
    for msg in problems:
        chk.violation("impl-violation", "sequential experiment with a stalled reader of Conductor's stdout: %s" % msg,
                      {"input": {"part": "slow-consumer", "bytes": n, "stall_s": stall}, "impl_observation": {"exit": p.returncode, "rows": [list(r) for r in rows]}}, match_key={"slow-consumer": msg.split(" ")[0]}, size=1)
    if not problems:
        chk.coverage["traces_validated_against_impl"] += 1


def task_removes_its_output(chk):
    """"every recorded version's output directory exists": an experiment that exits 0 after it has removed (or replaced by
    a file) its own output directory has produced nothing that can be recorded.  (D38: without args / options nothing
    touched the directory after the task, and a version was recorded whose directory does not exist -- dependents,
    `cond where` and `cond archive` were then handed a path to nothing.)"""
    import implrun

    # the last two: the directory stays, but the task leaves something under the name of a record file that cannot be written
    # over -- "... together with its args.json/options.json records": no version without them (seed C06/j)
    variants = {"removed": ("rm -rf $COND_OUT; echo removed", ""), "replaced by a file": ("rm -rf $COND_OUT; echo x > $COND_OUT", ""),
                "removed, sequential dependents": ("rm -rf $COND_OUT", ""),
                "kept, but args.json is a directory": ("mkdir $COND_OUT/args.json #", ', args=["a", 1]'),
                "kept, but options.json is a dangling link": ("ln -s /nonexistent-dir/x $COND_OUT/options.json #", ', options={"k": 1}')}
    for name, (script, extra) in variants.items():
        cond = 'run_experiment(name="e", run="%s"%s)\nrun_command(name="after", run="ls $COND_DEPS > $COND_OUT/seen", deps=[":e"])\n' % (script, extra)
        root = implrun.make_project({"COND": cond})
        res = implrun.run_cond(["run", "//:after"], root, timeout=60)
        chk.coverage["evaluations"] += 1
        chk.count("own output removed", name)
        rows = implrun.index_rows(root)
        text = implrun.strip_ansi(res.out + res.err)
        problems = []
        for tid, ts, _h, _u in rows:
            d = os.path.join(root, "cond-out", "e.task.%d" % ts)
            if not os.path.isdir(d):
                problems.append("version %d of %s is recorded but %s is not a directory" % (ts, tid, os.path.relpath(d, root)))
            for rec, flag in (("args.json", "args="), ("options.json", "options=")):
                if flag in extra and tid == "//:e" and not (os.path.isfile(os.path.join(d, rec)) and not os.path.islink(os.path.join(d, rec))):
                    problems.append("version %d of %s is recorded but its %s record is not there (a %s)" % (ts, tid, rec, "directory" if os.path.isdir(os.path.join(d, rec)) else "dangling link or nothing"))
        if "Traceback" in text:
            problems.append("the run ended in a traceback: %r" % text.strip().splitlines()[-1][:200])
        for msg in problems:
            chk.violation("impl-violation", "an experiment that exits 0 after its output directory was %s: %s" % (name, msg),
                          {"input": {"part": "own-output-removed", "variant": name, "cond": cond, "argv": ["run", "//:after"]},
                           "impl_observation": {"exit": res.code, "rows": [list(r) for r in rows], "output": text[-600:]}, "oracle_verdict": msg}, match_key={"part": "own-output-removed"}, size=1)
        if not problems:
            chk.coverage["traces_validated_against_impl"] += 1


def background_writer(chk, prop="C06"):
    """The experiment's command exits 0 at once but leaves a background job that still holds its stdout and writes to it
    1.5 s later.  Whenever the version's row is visible, the directory it names must be FINISHED: from that moment on
    Conductor writes nothing into it any more (C08: "never writes into the directory of an already recorded version";
    C06: the row never precedes its data).  Conductor's own copier threads write stdout.log until the pipe reaches end of
    file, so the row may only appear after that."""
    import subprocess
    import time
    import implrun
    from common import PY, SRC

    root = implrun.make_project({"COND": 'run_experiment(name="e", run="(sleep 1.5; echo late-line) & echo early-line")\n'})
    p = subprocess.Popen([PY, "-m", "conductor", "run", "//:e"], cwd=root, env=dict(os.environ, PYTHONPATH=SRC), stdout=subprocess.PIPE, stderr=subprocess.PIPE)
    first_seen = None
    t0 = time.time()
    while time.time() - t0 < 15 and p.poll() is None:
        rows = implrun.index_rows(root, while_running=True)
        if rows and first_seen is None:
            logp = os.path.join(root, "cond-out", "e.task.%d" % rows[0][1], "stdout.log")
            first_seen = (round(time.time() - t0, 2), open(logp, "rb").read() if os.path.exists(logp) else None)
            break
        time.sleep(0.02)
    try:
        out, err = p.communicate(timeout=30)
    except subprocess.TimeoutExpired:
        p.kill()
        out, err = p.communicate()
    rows = implrun.index_rows(root)
    chk.coverage["evaluations"] += 1
    chk.count("background-writer", "runs")
    problems = []
    if p.returncode != 0 or not rows:
        problems.append("harness: cond exited %s with rows %r: %r" % (p.returncode, rows, (out + err)[-200:]))
    else:
        logp = os.path.join(root, "cond-out", "e.task.%d" % rows[0][1], "stdout.log")
        final = open(logp, "rb").read() if os.path.exists(logp) else None
        if final != b"early-line\nlate-line\n":
            problems.append("after the run stdout.log holds %r, the command's processes wrote b'early-line\\nlate-line\\n'" % (final,))
        if first_seen is not None and first_seen[1] != final:
            problems.append("the version row was visible %.2f s into the run while stdout.log held %r; Conductor went on writing into the recorded directory (final content %r)"
                            % (first_seen[0], first_seen[1], final))
    for msg in problems:
        chk.violation("impl-violation", "a command that exits while a background job still writes to its stdout: %s" % msg,
                      {"input": {"part": "background-writer", "run": "(sleep 1.5; echo late-line) & echo early-line"}, "impl_observation": {"exit": p.returncode, "rows": [list(r) for r in rows]},
                       "oracle_verdict": msg}, match_key={"background-writer": msg.split(" ")[0]}, size=1)
    if not problems:
        chk.coverage["traces_validated_against_impl"] += 1


def run(tier, seed, replay=None):
    chk = Check("C06", tier, seed)
    chk.build_proofs(["Model/Store.vo", "Lib/Cmp.vo", "Refuted/StoreOld.vo"])
    su.preimport()
    chk.assumptions = [
        "sqlite commits atomically; a process that dies loses exactly its open transaction",
        "a kill is modelled between two line events of the cond process (os._exit from a line tracer); task processes survive it",
        "archives handed to restore were produced by `cond archive` (archive_ok); gc does not delete a directory whose task is still running",
        "one cond process at a time per project",
    ]

    if replay is not None:
        sc = replay["input"]["scenario"]
        k = replay["input"]["crash_at"]
        st = prepare(sc)
        SCEN[0] = st
        r = crash_job((0, k))
        print("replay: scenario %s, cond %s killed at line event %d (of %d): exit=%s" % (sc["name"], sc["cmd"]["kind"], k, len(st["trace"]), r["exit"]))
        print("  rows=%s\n  dirs=%s" % (r["obs"][0], r["obs"][1]))
        for c in r["complaints"]:
            print("  oracle:", c)
            chk.violation("impl-violation", "scenario %s killed at line event %d: %s" % (sc["name"], k, c),
                          {"input": {"scenario": sc, "crash_at": k}, "impl_observation": r["obs"], "oracle_verdict": c}, size=k)
        if not r["complaints"]:
            print("  oracle: every committed row has its complete directory")
        st["project"].cleanup()
        return chk.finish()

    head_states(chk)
    durability_assumption(chk)
    slow_consumer(chk)
    task_removes_its_output(chk)
    background_writer(chk, "C06")
    clean_with_an_index_that_cannot_be_removed(chk)
    import c13 as _c13  # pylint: disable=import-outside-toplevel

    _c13.recorded_versions_are_not_explored(chk)    # gc never reaches into a recorded version
    scs = scenarios(tier, chk.rng)
    total_runs = 0
    states_seen = 0
    states_model = 0
    agree = 0
    for si, sc in enumerate(scs):
        st = prepare(sc)
        SCEN[si] = st
        n = len(st["trace"])
        anchor = [i + 1 for i, (fn, _ln) in enumerate(st["trace"]) if fn in ANCHORS]
        if tier == "thorough":
            ks = list(range(1, n + 1))
        else:
            rest = [k for k in range(1, n + 1) if k not in set(anchor)]
            ks = sorted(set(anchor) | set(chk.rng.sample(rest, min(48, len(rest)))) | {1, n})
        chk.count("line_events", sc["name"], n)
        chk.count("crash_points", sc["name"], len(ks))
        for c in st["final_complaints"]:
            chk.violation("impl-violation", "scenario %s, complete run: %s" % (sc["name"], c),
                          {"input": {"scenario": sc, "crash_at": n + 1}, "impl_observation": st["final"], "oracle_verdict": c}, size=n)
        results = su.pmap(crash_job, [(si, k) for k in ks])
        total_runs += len(results)
        chk.count("hung_commands_retried", sc["name"], sum(1 for r in results if r.get("retried")))
        for r in results:
            if r["exit"] != su.CRASH_EXIT:
                chk.violation("correspondence", "scenario %s: crash injector at line event %d did not fire (exit %s after %ss); the traced run had %d events"
                              % (sc["name"], r["k"], r["exit"], r["dur"], n),
                              {"theorem_or_tie": "crash injector determinism", "input": {"scenario": sc, "crash_at": r["k"]},
                               "stdout": r["stdout"], "stderr": r["stderr"], "impl_observation": r["obs"]}, found_input=False)
            for c in r["complaints"]:
                chk.violation("impl-violation", "scenario %s, cond %s killed at line event %d (%s:%d): %s"
                              % (sc["name"], sc["cmd"]["kind"], r["k"], st["trace"][r["k"] - 1][0], st["trace"][r["k"] - 1][1], c),
                              {"input": {"scenario": sc, "crash_at": r["k"]}, "impl_observation": r["obs"], "oracle_verdict": c}, size=r["k"])
        if len(chk.coverage["samples"]) < 5:
            mid = results[len(results) // 2]
            chk.sample({"scenario": sc["name"], "line_events": n, "killed_at": mid["k"], "at": list(st["trace"][mid["k"] - 1]), "rows": mid["obs"][0], "dirs": mid["obs"][1]})
        # --- the model's crash states
        if not chk.coq.model_ok:
            continue
        if sc["cmd"]["kind"] == "clean":
            # the order in which rmtree meets the entries is the file system's; the theorem covers every order
            # (labels LCleanIndex / LCleanDir k in any sequence), the kill sweep above is judged by the oracle only
            agree += len(results)
            continue
        mstates, mfinal, raw = model_states(st)
        if mstates is None:
            chk.violation("correspondence", "model evaluation failed for scenario %s: %s" % (sc["name"], raw[-400:]),
                          {"theorem_or_tie": "correspondence Model/Store.v crash_states", "coq_output": raw[-3000:]}, found_input=False)
            continue
        mseq = dedupe(mstates)
        states_model += len(mseq)
        if su.pack_obs(st["final"], st["keys_only"]) != mfinal:
            chk.violation("correspondence", "scenario %s: the complete command ends in a state the model does not predict" % sc["name"],
                          {"theorem_or_tie": "correspondence Model/Store.v vs `cond %s`" % sc["cmd"]["kind"], "input": {"scenario": sc},
                           "impl_observation": st["final"], "model_command": st["coq_cmd"], "model_setup": st["coq_setup"], "clock": st["clock"]}, found_input=False)
        pos = 0
        seen = set()
        okay = True
        for r in sorted(results, key=lambda x: x["k"]):
            p = r["packed"]
            if p in mseq[pos:]:
                pos = mseq.index(p, pos)
                seen.add(pos)
                agree += 1
            else:
                okay = False
                where = "a model crash state that comes earlier" if p in mseq else "not a crash state of the model"
                chk.violation("correspondence", "scenario %s: state after a kill at line event %d (%s:%d) is %s"
                              % (sc["name"], r["k"], st["trace"][r["k"] - 1][0], st["trace"][r["k"] - 1][1], where),
                              {"theorem_or_tie": "correspondence Model/Store.v crash_states vs crash injector", "input": {"scenario": sc, "crash_at": r["k"]},
                               "impl_observation": r["obs"], "model_command": st["coq_cmd"], "model_setup": st["coq_setup"], "clock": st["clock"]}, found_input=False)
                break
        states_seen += len(seen)
        if okay and len(seen) != len(mseq):
            missing = [i for i in range(len(mseq)) if i not in seen]
            chk.violation("correspondence", "scenario %s: %d of the model's %d crash states were never observed (indices %s): the model is finer than the code or the sweep too coarse"
                          % (sc["name"], len(missing), len(mseq), missing[:10]),
                          {"theorem_or_tie": "granularity of Model/Store.v vs crash injector", "input": {"scenario": sc}, "model_command": st["coq_cmd"]}, found_input=False)
        st["project"].cleanup()
    chk.coverage["evaluations"] = total_runs
    chk.coverage["distinct_nontrivial"] = states_seen
    chk.coverage["exhaustive"] = tier == "thorough"
    chk.coverage["rule"] = (
        "one evaluation = the real `cond run` / `cond restore` killed at one line event (quick: every event inside %s plus 48 sampled others per "
        "scenario; thorough: every event), index and cond-out inspected afterwards; non-trivial = distinct abstract crash states (rows x directories x "
        "markers x args/options files) observed, each matched to a crash state of the model (%d model states in all)" % ("/".join(ANCHORS), states_model)
    )
    chk.coverage["traces_validated_against_impl"] = agree
    chk.coverage["disagreements_checked"] = total_runs
    if tier == "thorough":
        chk.run_coqchk()
    return chk.finish()
