"""Shared machinery of the checks: paths, PRNG, scratch space, Coq build + Print Assumptions
parsing, in-Coq evaluation of model cases (sharded), evidence writer, violation protocol."""
import atexit
import concurrent.futures
import fcntl
import json
import os
import random
import re
import shutil
import subprocess
import sys
import tempfile
import time

VERIF = os.path.dirname(os.path.dirname(os.path.abspath(__file__)))
COQ = os.path.join(VERIF, "coq")
REPO = os.environ.get("VERIF_REPO", "/repo")
SRC = os.path.join(REPO, "src")
PY = "/venv/bin/python"
NCPU = min(16, os.cpu_count() or 4)

TRUSTED_BASE = [
    "Coq 8.16.1 kernel as used by coqc, including vm_compute conversion (no native_compute)",
    "axioms: none -- every property theorem is 'Closed under the global context' (Print Assumptions, checked on every run)",
    "translator harness/gen_generated.py (CPython re._parser for regex ASTs, ast scan for .match/.fullmatch, reflection for config constants and the schema table), fail-closed",
    "correspondence harness (differential testing of the hand-written Gallina models against the code imported from /repo/src; models evaluated inside Coq by vm_compute, no extraction)",
    "modelled, not verified: CPython (dict order, str, pathlib, json, subprocess, signal delivery), sqlite, git, tar, shutil, bash, the kernel",
]


HARNESS_DIR = os.path.dirname(os.path.abspath(__file__))


def raised_in_harness(exc):
    """True when the exception was raised by a line of the harness itself (not by implementation code the harness
    called): the harness reaches into private attributes and module-level names of the implementation, and a
    behaviour-preserving rewrite that renames one of them makes the *harness* fail with AttributeError/NameError/...
    Such a failure is a broken tie (the property is no longer shown to hold), not a failing input."""
    if not isinstance(exc, (AttributeError, NameError, TypeError, KeyError, ImportError, IndexError)):
        return False
    tb = exc.__traceback__
    if tb is None:
        return False
    while tb.tb_next is not None:
        tb = tb.tb_next
    return os.path.abspath(tb.tb_frame.f_code.co_filename).startswith(HARNESS_DIR + os.sep)


HARNESS_FAULT = "HarnessAttach"


def setup_impl_path():
    """make `import conductor` resolve to the working tree under REPO"""
    if SRC not in sys.path:
        sys.path.insert(0, SRC)
    import conductor  # pylint: disable=import-outside-toplevel

    real = os.path.realpath(conductor.__file__)
    if not real.startswith(os.path.realpath(SRC)):
        raise RuntimeError("conductor imported from %s, expected under %s" % (real, SRC))


# ----------------------------------------------------------------------------- scratch
_SCRATCH = None


def scratch():
    global _SCRATCH  # pylint: disable=global-statement
    if _SCRATCH is None:
        base = os.environ.get("VERIF_SCRATCH") or ("/dev/shm" if os.path.isdir("/dev/shm") else None)
        _SCRATCH = os.path.realpath(tempfile.mkdtemp(prefix="verif-", dir=base))   # cond resolves its cwd physically
        atexit.register(lambda: shutil.rmtree(_SCRATCH, ignore_errors=True))
    return _SCRATCH


def new_dir(name):
    d = tempfile.mkdtemp(prefix=name + "-", dir=scratch())
    return d


# ----------------------------------------------------------------------------- coq text helpers
def cstr(s):
    """Python str -> Coq list N literal (N_scope must be open)"""
    if isinstance(s, bytes):
        return "[" + "; ".join(str(b) for b in s) + "]"
    return "[" + "; ".join(str(ord(c)) for c in s) + "]"


def clist(items):
    return "[" + "; ".join(items) + "]"


def cbool(b):
    return "true" if b else "false"


def copt(x, f=lambda v: v):
    return "None" if x is None else "(Some %s)" % f(x)


def cnat(n):
    assert 0 <= n < 5000, n
    return "%d%%nat" % n


# ----------------------------------------------------------------------------- packed result channel
# mirrors coq/Lib/Cmp.v: ser_* flatten a value to a list of numbers (prefix code), pack() folds
# the list into a 64-bit polynomial hash (equal values => equal hashes).
def ser_n(n):
    return [int(n)]


def ser_bool(b):
    return [1 if b else 0]


def ser_str(s):
    if isinstance(s, bytes):
        return [len(s)] + list(s)
    return [len(s)] + [ord(c) for c in s]


def ser_list(f, l):
    out = [len(l)]
    for x in l:
        out.extend(f(x))
    return out


def ser_opt(f, o):
    return [0] if o is None else [1] + f(o)


def pack(nums):
    acc = 7
    for b in nums:
        acc = (acc * 1000003 + b + 1) & 0xFFFFFFFFFFFFFFFF
    return acc


def run_packed_cases(imports, defs, got_expr_per_shard, want_per_shard, timeout=900):
    """Each shard: Coq expression of type `list N` (packed model results, one per case) and the
    Python list of packed numbers expected.  Returns per shard (ok, mismatching indices | None, raw output)."""
    files = []
    for k, (expr, want) in enumerate(zip(got_expr_per_shard, want_per_shard)):
        text = (
            "From Coq Require Import List NArith Bool.\n"
            + imports
            + "\nImport ListNotations.\nOpen Scope N_scope.\n"
            + defs
            + "\nDefinition got : list N := %s.\n" % expr
            + "Definition want : list N := [%s].\n" % "; ".join(str(w) for w in want)
            + "Eval vm_compute in (mismatches got want 0%nat).\n"
        )
        files.append(("shard_%d" % k, text))
    results = coq_eval(files, timeout=timeout)
    out = []
    for rc, o in results:
        vals = parse_eval(o)
        if rc != 0 or not vals:
            out.append((False, None, o[-3000:]))
        else:
            out.append((True, parse_nat_list(vals[-1]), o[-3000:]))
    return out


# ----------------------------------------------------------------------------- coq build
class CoqResult:
    def __init__(self):
        self.ok = False
        self.model_ok = False
        self.theorems = []
        self.closed = []
        self.axioms = {}
        self.log = ""
        self.error = ""
        self.wall = 0.0
        self.gen_failures = {}


def _run(cmd, cwd=None, timeout=900, env=None):
    try:
        p = subprocess.run(cmd, cwd=cwd, stdout=subprocess.PIPE, stderr=subprocess.STDOUT, timeout=timeout, env=env, check=False)
        return p.returncode, p.stdout.decode("utf-8", "replace")
    except subprocess.TimeoutExpired as ex:
        return 124, (ex.stdout or b"").decode("utf-8", "replace") + "\nTIMEOUT after %ss" % timeout


FORBIDDEN = re.compile(
    r"\b(Admitted|admit|Axiom|Axioms|Parameter|Parameters|Conjecture|Conjectures|Admit Obligations|bypass_check|type-in-type|impredicative-set)\b"
    r"|Unset\s+Guard|Unset\s+Positivity|Unset\s+Universe"
)


def grep_gate():
    """reject forbidden vernacular anywhere under coq/ (comments excluded crudely by stripping them)"""
    bad = []
    for root, _dirs, files in os.walk(COQ):
        for fn in files:
            if not fn.endswith(".v"):
                continue
            path = os.path.join(root, fn)
            text = open(path, encoding="utf-8").read()
            # strip comments (non-nested is enough for our files; nested ones only make us stricter)
            stripped = re.sub(r"\(\*.*?\*\)", " ", text, flags=re.S)
            for m in FORBIDDEN.finditer(stripped):
                bad.append("%s: %s" % (os.path.relpath(path, COQ), m.group(0)))
            stack = []
            for m in re.finditer(r"^\s*(Section|End|Variable|Variables|Hypothesis|Hypotheses|Context)\b\s*(\w*)", stripped, flags=re.M):
                kw, name = m.group(1), m.group(2)
                if kw == "Section":
                    stack.append(name)
                elif kw == "End":
                    if stack and stack[-1] == name:
                        stack.pop()
                elif not stack:
                    bad.append("%s: %s outside a section" % (os.path.relpath(path, COQ), kw))
    return bad


def regenerate():
    env = dict(os.environ, PYTHONPATH=SRC, PYTHONHASHSEED="0", VERIF_REPO=REPO)
    rc, out = _run([PY, os.path.join(VERIF, "harness", "gen_generated.py")], env=env, timeout=120)
    failures = {}
    try:
        failures = json.load(open(os.path.join(COQ, "Gen", "status.json"), encoding="utf-8"))["failures"]
    except Exception:  # pylint: disable=broad-except
        pass
    return rc, out, failures


class _BuildLock:
    """One lock file for the Coq build directory, held by a check for as long as it uses the compiled files:
    SHARED while it only reads them (evaluates cases, runs coqchk), EXCLUSIVE while it regenerates Generated.v or runs
    make.  Checks for the same tree find everything up to date and stay shared (they run in parallel); a check for a
    DIFFERENT tree (seeded changes, mutants) needs a rebuild and waits until the readers are gone -- nobody's compiled
    model is swapped underneath it."""
    f = None

    @classmethod
    def _file(cls):
        if cls.f is None:
            cls.f = open(os.path.join(COQ, ".lock"), "w", encoding="utf-8")
        return cls.f

    @classmethod
    def shared(cls):
        fcntl.flock(cls._file(), fcntl.LOCK_SH)

    @classmethod
    def exclusive(cls):
        fcntl.flock(cls._file(), fcntl.LOCK_EX)


def _up_to_date(targets):
    env = dict(os.environ, PYTHONPATH=SRC, PYTHONHASHSEED="0", VERIF_REPO=REPO)
    rc, out = _run([PY, os.path.join(VERIF, "harness", "gen_generated.py"), "--check"], env=env, timeout=120)
    try:
        st = json.loads(out.strip().splitlines()[-1])
    except Exception:  # pylint: disable=broad-except
        return False, {}
    if rc != 0 or not st.get("same"):
        return False, st.get("failures", {})
    if _run(["make", "-f", "Makefile.wrap", "-q", "Makefile.coq"], cwd=COQ, timeout=120)[0] != 0:
        return False, st.get("failures", {})
    if _run(["make", "-f", "Makefile.coq", "-q"] + list(targets), cwd=COQ, timeout=300)[0] != 0:
        return False, st.get("failures", {})
    return True, st.get("failures", {})


def coq_make(targets, clean=False, timeout=1500):
    """bring Generated.v and the targets (relative .vo paths) up to date; afterwards this process holds the build
    lock SHARED until it exits"""
    _BuildLock.shared()
    if not clean:
        ok, failures = _up_to_date(targets)
        if ok:
            return True, "up to date", failures
    _BuildLock.exclusive()
    try:
        rc_g, out_g, failures = regenerate()
        log = out_g
        if rc_g != 0:
            return False, log + "\ntranslator failed", failures
        rc, out = _run(["make", "-f", "Makefile.wrap", "Makefile.coq"], cwd=COQ, timeout=120)
        log += out
        if clean:
            _run(["make", "-f", "Makefile.coq", "clean"], cwd=COQ, timeout=120)
        rc, out = _run(["make", "-f", "Makefile.coq", "-j%d" % NCPU, "-k"] + list(targets), cwd=COQ, timeout=timeout)
        log += out
        return rc == 0, log, failures
    finally:
        _BuildLock.shared()


def coq_props(prop_id, model_targets, clean=False):
    """Build the property's theorem file and parse its Print Assumptions output.
    model_targets: the .vo files the correspondence check needs (built even if proofs fail)."""
    t0 = time.time()
    res = CoqResult()
    src = os.path.join(COQ, "Props", prop_id + ".v")
    text = open(src, encoding="utf-8").read()
    stripped = re.sub(r"\(\*.*?\*\)", " ", text, flags=re.S)
    res.theorems = re.findall(r"^\s*(?:Theorem|Corollary)\s+(\w+)", stripped, flags=re.M)
    printed = re.findall(r"^\s*Print\s+Assumptions\s+(\w+)\s*\.", stripped, flags=re.M)
    gate = grep_gate()
    ok_m, log_m, failures = coq_make(list(model_targets), clean=clean)
    res.model_ok = ok_m
    res.gen_failures = failures
    res.log = log_m
    if gate:
        res.error = "forbidden vernacular: " + "; ".join(gate)
        res.wall = time.time() - t0
        return res
    if sorted(printed) != sorted(res.theorems):
        res.error = "Props/%s.v: every Theorem needs its own Print Assumptions (theorems %s, printed %s)" % (prop_id, res.theorems, printed)
        res.wall = time.time() - t0
        return res
    ok_p, log_p, _ = coq_make(["Props/%s.vo" % prop_id])
    res.log += log_p
    if not ok_p:
        m = re.search(r'File "([^"]+)", line (\d+)[^\n]*\n(Error:.*?)(?:\n\n|\nmake)', log_p, flags=re.S)
        res.error = ("%s:%s %s" % (m.group(1), m.group(2), " ".join(m.group(3).split())[:400])) if m else "build of Props/%s.vo failed" % prop_id
        res.wall = time.time() - t0
        return res
    # re-run coqc on the Props file alone to capture Print Assumptions output of THIS run
    outvo = os.path.join(new_dir("props"), prop_id + ".vo")
    rc, out = _run(["coqc", "-Q", ".", "Conductor", "Props/%s.v" % prop_id, "-o", outvo], cwd=COQ, timeout=600)
    res.log += out
    if rc != 0:
        res.error = "coqc Props/%s.v failed: %s" % (prop_id, out[-400:])
        res.wall = time.time() - t0
        return res
    blocks = re.split(r"(?m)^(?=Closed under the global context|Axioms:)", out)
    blocks = [b for b in blocks if b.startswith("Closed under") or b.startswith("Axioms:")]
    if len(blocks) != len(printed):
        res.error = "expected %d Print Assumptions blocks, saw %d" % (len(printed), len(blocks))
        res.wall = time.time() - t0
        return res
    for name, b in zip(printed, blocks):
        if b.startswith("Closed under"):
            res.closed.append(name)
        else:
            res.axioms[name] = " ".join(b.split())[:500]
    res.ok = len(res.closed) == len(res.theorems) and not res.axioms
    if not res.ok and not res.error:
        res.error = "theorems depending on axioms: %s" % res.axioms
    res.wall = time.time() - t0
    return res


def coqchk(prop_id):
    """independent re-check of the compiled theorem file and everything it depends on; under the build lock and right
    after bringing the .vo files up to date, so that another check building for a different tree cannot swap a
    dependency underneath (coqchk would report inconsistent assumptions)"""
    coq_make(["Props/%s.vo" % prop_id])     # (re)takes the build lock; it stays shared while coqchk reads the files
    rc, out = _run(["coqchk", "-silent", "-o", "-Q", ".", "Conductor", "Conductor.Props.%s" % prop_id], cwd=COQ, timeout=1800)
    return rc, out


# ----------------------------------------------------------------------------- in-Coq evaluation
def coq_eval(files, timeout=900):
    """files: list of (name, text). Each is compiled with coqc in scratch; returns list of (rc, stdout)."""
    d = new_dir("cases")
    paths = []
    for name, text in files:
        p = os.path.join(d, name + ".v")
        with open(p, "w", encoding="utf-8") as f:
            f.write(text)
        paths.append(p)

    def one(p):
        return _run(["bash", "-c", "ulimit -s unlimited 2>/dev/null; exec coqc -Q %s Conductor %s" % (COQ, p)], cwd=d, timeout=timeout)

    with concurrent.futures.ThreadPoolExecutor(max_workers=NCPU) as ex:
        results = list(ex.map(one, paths))
    shutil.rmtree(d, ignore_errors=True)
    return results


def parse_eval(out):
    """text between '= ' and the ': type' line of every Eval, whitespace-normalised"""
    vals = []
    for m in re.finditer(r"^\s*= (.*?)\n\s*: [^\n]*(?:\n\s+[^\n=]*)*?(?=\n\s*=|\n*\Z)", out, flags=re.S | re.M):
        vals.append(" ".join(m.group(1).split()))
    return vals


def parse_nat_list(val):
    val = val.strip()
    if val in ("[]", "nil"):
        return []
    return [int(x) for x in re.findall(r"\d+", val)]


# ----------------------------------------------------------------------------- known findings
def load_known_findings(prop_id):
    path = os.path.join(VERIF, "known_findings.jsonl")
    out = []
    if os.path.exists(path):
        for line in open(path, encoding="utf-8"):
            line = line.strip()
            if not line or line.startswith("#"):
                continue
            e = json.loads(line)
            if e.get("property") == prop_id:
                out.append(e)
    return out


# ----------------------------------------------------------------------------- the check object
class Check:
    def __init__(self, prop_id, tier, seed):
        self.prop_id = prop_id
        self.tier = tier
        self.seed = seed
        self.rng = random.Random(seed)
        self.t0 = time.time()
        self.violations = []  # dicts: kind, summary, replay (dict), found_input (bool)
        self.known_hits = []
        self.coverage = {
            "evaluations": 0,
            "distinct_nontrivial": 0,
            "rule": "",
            "samples": [],
            "traces_validated_against_impl": 0,
            "disagreements_checked": 0,
            "distribution": {},
        }
        self.assumptions = []
        self.coq = None
        self.known = load_known_findings(prop_id)

    # --- proofs
    def build_proofs(self, model_targets):
        self.coq = coq_props(self.prop_id, model_targets, clean=False)
        c = self.coq
        self.coverage["obligations"] = len(c.theorems)
        self.coverage["discharged"] = len(c.closed)
        self.coverage["theorems"] = c.theorems
        self.coverage["checker_cmd"] = (
            "harness/gen_generated.py && make -f Makefile.coq Props/%s.vo && coqc -Q . Conductor Props/%s.v (Print Assumptions under every theorem)"
            % (self.prop_id, self.prop_id)
        )
        self.coverage["trusted_base"] = list(TRUSTED_BASE)
        self.coverage["coq_wall_s"] = round(c.wall, 1)
        if c.gen_failures:
            self.coverage["translator_failures"] = c.gen_failures
        return c.ok

    def run_coqchk(self):
        rc, out = coqchk(self.prop_id)
        tail = out.strip().splitlines()[-30:]
        self.coverage["coqchk"] = {"rc": rc, "tail": tail}
        if rc != 0:
            self.violation("proof-broken", "coqchk rejected Props/%s.vo" % self.prop_id, {"coqchk_output": tail}, found_input=False)

    # --- violations
    def violation(self, kind, summary, replay, found_input=True, match_key=None, size=0):
        """match_key: dict identifying the failing input for the known-findings file"""
        for e in self.known:
            if e.get("status") == "open" and match_key is not None and _matches(e.get("match", {}), match_key):
                if e["id"] not in [k["id"] for k in self.known_hits]:
                    self.known_hits.append({"id": e["id"], "summary": e.get("summary", summary)})
                return
        self.violations.append({"kind": kind, "summary": summary, "replay": replay, "found_input": found_input, "size": size})

    def sample(self, x):
        if len(self.coverage["samples"]) < 8:
            self.coverage["samples"].append(x)

    def count(self, key, sub, n=1):
        d = self.coverage["distribution"].setdefault(key, {})
        d[sub] = d.get(sub, 0) + n

    # --- finish
    def finish(self):
        # a broken proof with no failing input found is still a violation
        if self.coq is not None and not self.coq.ok:
            has_input = any(v["found_input"] for v in self.violations)
            if not has_input:
                self.violations.append(
                    {
                        "kind": "proof-broken",
                        "summary": "proof obligation no longer checks: " + self.coq.error,
                        "replay": {"theorem_or_tie": self.coq.error, "coq_log_tail": self.coq.log[-3000:]},
                        "found_input": False,
                        "size": 0,
                    }
                )
        wall = time.time() - self.t0
        os.makedirs(os.path.join(VERIF, "evidence"), exist_ok=True)
        os.makedirs(os.path.join(VERIF, "replays"), exist_ok=True)
        lines = []
        # order: violations with a concrete input first
        self.violations.sort(key=lambda v: (not v["found_input"], v.get("size", 0)))
        for i, v in enumerate(self.violations[:5]):
            path = os.path.join(VERIF, "replays", "%s-%s-%d-%d.json" % (self.prop_id, self.tier, self.seed, i))
            obj = {
                "property": self.prop_id,
                "kind": v["kind"],
                "summary": v["summary"],
                "seed": self.seed,
                "tier": self.tier,
                "repo": REPO,
                "how_to_run": "./check %s --replay %s" % (self.prop_id, path),
            }
            obj.update(v["replay"])
            with open(path, "w", encoding="utf-8") as f:
                json.dump(obj, f, indent=1, default=str)
            tail = "" if v["found_input"] else " no-failing-input-found"
            lines.append("VIOLATION property=%s replay=%s%s" % (self.prop_id, path, tail))
        for k in self.known_hits:
            print("KNOWN-FINDING: property=%s %s (%s)" % (self.prop_id, k["summary"], k["id"]))
        ev = {
            "property_id": self.prop_id,
            "tier": self.tier,
            "seed": self.seed,
            "level": "proof",
            "coverage": self.coverage,
            "assumptions": self.assumptions,
            "wall_s": round(wall, 2),
            "violations": len(self.violations),
        }
        ev["coverage"]["known_findings_hit"] = [k["id"] for k in self.known_hits]
        # schema hygiene: exhaustive is a boolean, counts are integers
        ex = self.coverage.get("exhaustive")
        if ex is not None and not isinstance(ex, bool):
            self.coverage["exhaustive_scope"] = ex
            self.coverage["exhaustive"] = bool(ex)
        for key in ("evaluations", "distinct_nontrivial", "traces_validated_against_impl", "disagreements_checked", "obligations", "discharged"):
            if key in self.coverage and not isinstance(self.coverage[key], int):
                self.coverage[key] = int(self.coverage[key])
        if not self.coverage["samples"]:
            self.coverage["samples"] = ["(no cases run)"]
        # a run in which proof obligations failed (or were not reached) does not make a proof-level claim: the counts
        # are kept under other names so that the file still describes what happened
        if self.coverage.get("discharged") in (None, 0) or self.coverage.get("discharged") != self.coverage.get("obligations"):
            self.coverage["proof_obligations_total"] = self.coverage.pop("obligations", None)
            self.coverage["proof_obligations_discharged"] = self.coverage.pop("discharged", None)
            self.coverage["explanation"] = "proof obligations were not all discharged in this run (see violations); the counts above are of the testing side only"
        tmp = os.path.join(VERIF, "evidence", ".%s.json.tmp" % self.prop_id)
        with open(tmp, "w", encoding="utf-8") as f:
            json.dump(ev, f, indent=1, default=str)
        os.replace(tmp, os.path.join(VERIF, "evidence", "%s.json" % self.prop_id))
        for v in self.violations[:5]:
            print("  ! %s: %s" % (v["kind"], v["summary"][:300]))
        for ln in lines:
            print(ln)
        print(
            "%s tier=%s seed=%d: obligations=%s discharged=%s evaluations=%d violations=%d wall=%.1fs"
            % (
                self.prop_id,
                self.tier,
                self.seed,
                self.coverage.get("obligations", self.coverage.get("proof_obligations_total")),
                self.coverage.get("discharged", self.coverage.get("proof_obligations_discharged")),
                self.coverage["evaluations"],
                len(self.violations),
                wall,
            )
        )
        return 1 if self.violations else 0


def _matches(pattern, key):
    """every field of the known-finding pattern must equal the corresponding field of the key"""
    if not pattern:
        return False
    for k, v in pattern.items():
        if key.get(k) != v:
            return False
    return True
