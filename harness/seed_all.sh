#!/bin/bash
# re-evaluate every seeded breakage against the checks; writes seeded/<id>/<v>/meta.json and seeded/summary.txt
# (a seed directory may name further checks to run in a file `also_checks`)
cd "$(dirname "$0")/.."
: > seeded/summary.txt
for d in seeded/C*/[a-z]; do
  p=$(basename $(dirname $d))
  extra=""
  [ "$d" = "seeded/C02/b" ] && extra="C02 C05"
  [ -f $d/also_checks ] && extra="$p $(cat $d/also_checks)"
  /venv/bin/python harness/seed_eval.py $p $d $extra 2>&1 | tail -1 >> seeded/summary.txt
done
