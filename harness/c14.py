"""C14 -- dependency graphs are validated soundly before anything runs.

proofs : coq/Props/C14.v (loader: soundness, completeness, termination, order independence; whole-project
         validation: soundness, decision, exact roots)
tie    : (a) `cond run` path: the scheduling engine (sched_checks.run_prop) -- the real TaskIndex.load_transitive_closure
             on every digraph over 2 (quick) / 3 (thorough) names + an undefined one, every listing order, every root,
             plus random defect projects, against Model/Loader.v and the property oracle;
         (b) whole-project validation (explorer): every COND file of the project is loaded with the real
             TaskIndex.load_all_tasks_in_cond_file (several file orders), then the real validate_all_loaded_tasks();
             result (error kind / the exact list of roots) against Model/Loader.v validate_all and against an
             independent oracle (reject iff a cycle or a dangling dependency exists among the loaded tasks; roots =
             the loaded tasks nobody depends on, in dict order).
"""
import itertools
import json
import os
import pathlib
import shutil

from common import pack, ser_list, ser_n, run_packed_cases, clist, setup_impl_path, new_dir
from sched_checks import run_prop
from sched_engine import all_small_graphs, rand_dag, add_defects
from sched_util import Case, Task, write_project, ident, task_of_ident, IMPORTS, impl


def observe_validate(case, file_order):
    """load every COND file (in the given order of packages) and validate; returns (keys, result)"""
    m = impl()
    errors = m["errors"]
    root = write_project(case)
    ctx = m["Context"](pathlib.Path(root))
    idx = ctx.task_index
    pkgs = []
    for t in case.tasks:
        if t.status != 0 and t.pkg not in pkgs:
            pkgs.append(t.pkg)
    pkgs = [pkgs[i] for i in file_order if i < len(pkgs)] + [p for i, p in enumerate(pkgs) if i not in file_order]
    for pkg in pkgs:
        idx.load_all_tasks_in_cond_file(pathlib.Path(pkg, "COND"))
    keys = [task_of_ident(k) for k in idx.get_all_loaded_tasks().keys()]
    try:
        roots = idx.validate_all_loaded_tasks()
        res = ("ok", [task_of_ident(r) for r in roots])
    except errors.CyclicDependency:
        res = ("cycle",)
    except errors.TaskNotFound as ex:
        res = ("notfound", int(str(ex.task_identifier).rsplit(":t", 1)[1]))
    return keys, res


def ser_v(res):
    if res[0] == "ok":
        return [0] + ser_list(ser_n, res[1])
    if res[0] == "cycle":
        return [1]
    return [2, res[1]]


def oracle_validate(case, keys, res):
    loaded = set(keys)
    deps = {k: case.tasks[k].deps for k in keys}
    dangling = any(d not in loaded for k in keys for d in deps[k])
    # cycle among loaded tasks (edges into unloaded tasks do not continue)
    color = {}

    def dfs(x):
        color[x] = 1
        for d in deps.get(x, []):
            if d not in loaded:
                continue
            if color.get(d) == 1 or (color.get(d) is None and dfs(d)):
                return True
        color[x] = 2
        return False

    cyc = any(color.get(k) is None and dfs(k) for k in keys)
    out = []
    if res[0] == "ok":
        if dangling or cyc:
            out.append("validation accepted a project with %s" % ("a cycle" if cyc else "a dangling dependency"))
        want = [k for k in keys if not any(k in deps[x] for x in keys)]
        if res[1] != want:
            out.append("validation reported the roots %r, the loaded tasks nobody depends on are %r" % (res[1], want))
    elif res[0] == "cycle" and not cyc:
        out.append("validation reported a cycle, there is none among the loaded tasks")
    elif res[0] == "notfound" and (res[1] in loaded or not dangling):
        out.append("validation reported t%d as not found, but %s" % (res[1], "it is loaded" if res[1] in loaded else "no dependency is dangling"))
    return out


def validate_part(chk, tier):
    rng = chk.rng
    cases = []
    small = 3
    # all digraphs on 3 names + an undefined one with every listing order are ~275 000 projects: a stride through them
    stride = 700 if tier == "quick" else 35
    for k, tasks in enumerate(all_small_graphs(small)):
        if k % stride or any(len(set(t.deps)) != len(t.deps) for t in tasks):
            continue
        cases.append(Case([Task(t.status, t.deps, t.kind, pkg=["", "p0", ""][i % 3] if i < small else "") for i, t in enumerate(tasks)]))
    for _ in range(300 if tier == "quick" else 3000):
        n = rng.randint(2, 8)
        tasks = rand_dag(rng, n, p_edge=rng.choice([0.15, 0.3, 0.5]))
        for _k in range(rng.choice([0, 0, 0, 1, 1, 2])):
            add_defects(rng, tasks)
        # whole-file loading rejects malformed tasks and duplicate dependencies while loading: keep those out
        for t in tasks:
            if t.status == 1:
                t.status = 2
            seen = []
            for d in t.deps:
                if d not in seen:
                    seen.append(d)
            t.deps = seen
        if rng.random() < 0.2:   # an isolated cycle nobody points into
            a = len(tasks)
            tasks.append(Task(2, [a + 1], "command", pkg=rng.choice(["", "p0"])))
            tasks.append(Task(2, [a], "command", pkg=rng.choice(["", "p0"])))
        cases.append(Case(tasks))
    exprs, wants, meta = [], [], []
    agree = 0
    for c in cases:
        npk = len({t.pkg for t in c.tasks if t.status != 0})
        for order in ([list(range(npk))] if npk <= 1 else [list(range(npk)), list(reversed(range(npk)))]):
            try:
                keys, res = observe_validate(c, order)
            except Exception as e:  # pylint: disable=broad-except
                chk.violation("impl-violation", "whole-project validation raised %s: %s on %s" % (type(e).__name__, e, c.graph_text()),
                              {"input": {"part": "validate_all", "case": c.to_json(), "file_order": order}, "impl_observation": repr(e)}, match_key={"validate": "raise"}, size=len(c.tasks))
                continue
            chk.coverage["evaluations"] += 1
            chk.count("validate_all", res[0])
            for msg in oracle_validate(c, keys, res):
                chk.violation("impl-violation", "whole-project validation, loaded tasks %r of %s: %s" % (keys, c.graph_text(), msg),
                              {"input": {"part": "validate_all", "case": c.to_json(), "file_order": order}, "impl_observation": {"keys": keys, "result": list(res)}, "oracle_verdict": msg},
                              match_key={"validate": msg.split(" ")[1]}, size=len(c.tasks) * 10 + sum(len(t.deps) for t in c.tasks))
            tds = c.coq().rsplit(", {| c_root", 1)[0][1:]
            exprs.append("validate_hash 400%%nat %s %s" % (tds, clist(["%d%%nat" % k for k in keys])))
            wants.append(pack(ser_v(res)))
            meta.append((c, order, keys, res))
    if chk.coq.model_ok and exprs:
        shard = 250
        chunks = [clist(exprs[a:a + shard]) for a in range(0, len(exprs), shard)]
        wl = [wants[a:a + shard] for a in range(0, len(exprs), shard)]
        res_ = run_packed_cases(IMPORTS, "", chunks, wl)
        for off, (ok, bad, raw) in zip(range(0, len(exprs), shard), res_):
            if not ok:
                chk.violation("correspondence", "model evaluation failed (validate_all): %s" % raw[-300:], {"theorem_or_tie": "correspondence Model/Loader.v validate_all", "coq_output": raw}, found_input=False)
                continue
            chk.coverage["disagreements_checked"] += len(wl[off // shard])
            agree += len(wl[off // shard]) - len(bad)
            for i in bad[:3]:
                c, order, keys, r = meta[off + i]
                chk.violation("correspondence", "Model/Loader.v validate_all and TaskIndex.validate_all_loaded_tasks disagree on %s (loaded order %r): implementation %r" % (c.graph_text(), keys, r),
                              {"theorem_or_tie": "correspondence validate_all", "input": {"part": "validate_all", "case": c.to_json(), "file_order": order}, "impl_observation": {"keys": keys, "result": list(r)}},
                              found_input=False, size=len(c.tasks))
    chk.coverage["traces_validated_against_impl"] += agree


def explorer_loading(chk):
    """Whole-project validation as the explorer performs it: TaskIndex.load_all_known_tasks(git) -- the COND files that
    `git ls-files` reports -- followed by validate_all_loaded_tasks().  Two layouts of the same three projects (sound,
    cyclic, dangling): the Conductor project is the repository root / a sub-directory of the repository.  In both, the
    sound project must be accepted with exactly its root tasks and all its tasks loaded, the other two rejected."""
    import subprocess
    from common import PY, SRC

    driver = ("import json, pathlib, sys\n"
              "from conductor.context import Context\n"
              "from conductor.errors import ConductorError\n"
              "ctx = Context(pathlib.Path(sys.argv[1]))\n"
              "idx = ctx.task_index\n"
              "res = idx.load_all_known_tasks(ctx.git)\n"
              "try:\n"
              "    roots = sorted(str(r) for r in idx.validate_all_loaded_tasks())\n"
              "    print(json.dumps({'verdict': 'accepted', 'roots': roots, 'tasks': sorted(str(k) for k in idx.get_all_loaded_tasks().keys()), 'files': len(res)}))\n"
              "except ConductorError as ex:\n"
              "    print(json.dumps({'verdict': type(ex).__name__}))\n")
    projects = {
        "sound": ({"COND": 'run_command(name="top", run="true", deps=["//p:mid"])\n', "p/COND": 'run_command(name="mid", run="true", deps=[":leaf"])\nrun_command(name="leaf", run="true")\n'},
                  {"verdict": "accepted", "roots": ["//:top"], "tasks": ["//:top", "//p:leaf", "//p:mid"]}),
        "cyclic": ({"COND": 'run_command(name="top", run="true", deps=["//p:mid"])\n', "p/COND": 'run_command(name="mid", run="true", deps=[":leaf"])\nrun_command(name="leaf", run="true", deps=[":mid"])\n'},
                   {"verdict": "CyclicDependency"}),
        "dangling": ({"COND": 'run_command(name="top", run="true", deps=["//p:gone"])\n', "p/COND": 'run_command(name="mid", run="true")\n'},
                     {"verdict": "TaskNotFound"}),
    }
    for layout in ("project = repository root", "project in a sub-directory of the repository"):
        for name, (files, want) in projects.items():
            base = new_dir("explorer")
            repo = os.path.join(base, "repo")
            root = repo if layout.startswith("project = ") else os.path.join(repo, "artifact")
            os.makedirs(root)
            for rel, text in dict(files, **{"cond_config.toml": "", ".gitignore": "cond-out\n"}).items():
                pth = os.path.join(root, rel)
                os.makedirs(os.path.dirname(pth), exist_ok=True)
                open(pth, "w").write(text)
            import select_util  # pylint: disable=import-outside-toplevel

            genv = dict(os.environ, **select_util.GIT_ENV)
            for argv in (["init", "-q", "-b", "main"], ["config", "user.email", "v@example.org"], ["config", "user.name", "v"], ["add", "-A"], ["commit", "-q", "-m", "c0"]):
                subprocess.run(["git"] + argv, cwd=repo, check=True, capture_output=True, env=genv)
            drv = os.path.join(base, "driver.py")
            open(drv, "w").write(driver)
            r = subprocess.run([PY, drv, root], cwd=root, env=dict(genv, PYTHONPATH=SRC), capture_output=True, text=True)
            chk.coverage["evaluations"] += 1
            chk.count("explorer loading", layout)
            try:
                got = json.loads(r.stdout.strip().splitlines()[-1])
            except (ValueError, IndexError):
                got = {"verdict": "crash", "output": (r.stdout + r.stderr)[-300:]}
            ok = got.get("verdict") == want["verdict"] and all(got.get(k) == v for k, v in want.items())
            if not ok:
                chk.violation("impl-violation", "whole-project validation (load_all_known_tasks + validate_all_loaded_tasks), %s, %s project: got %r, expected %r" % (layout, name, got, want),
                              {"input": {"part": "explorer-loading", "layout": layout, "files": files}, "impl_observation": got, "oracle_verdict": "expected %r" % (want,)},
                              match_key={"explorer": layout}, size=3)
            else:
                chk.coverage["traces_validated_against_impl"] += 1
            shutil.rmtree(base, ignore_errors=True)


def explorer_repeated_requests(chk):
    """The explorer's task-graph request (explorer/routes.py get_task_graph), asked SEVERAL times of one long-lived process
    (a page reload): a project with a cycle or a dangling dependency is rejected every time (HTTP 400), a sound project is
    answered every time with all its tasks and exactly its root tasks.  The routes module is imported from a scratch copy of
    the sources (importing it creates the directory of the UI bundle, which must not happen inside the working tree).
    (Seed C14/k: the "graph validated" flag was set before validation succeeded; from the second request on a defective
    project was answered 200 with no root tasks.)"""
    import subprocess
    from common import PY, SRC
    import select_util  # pylint: disable=import-outside-toplevel

    base = new_dir("explorer-req")
    copy = os.path.join(base, "srccopy")
    shutil.copytree(SRC, os.path.join(copy, "src"), symlinks=True, ignore=shutil.ignore_patterns("__pycache__"))
    os.makedirs(os.path.join(copy, "explorer", "dist"), exist_ok=True)       # where src/conductor/explorer/static points in a checkout
    driver = ("import json, pathlib, sys\n"
              "from fastapi import HTTPException\n"
              "from conductor.context import Context\n"
              "import conductor.explorer.routes as routes\n"
              "routes.set_context(Context(pathlib.Path(sys.argv[1])))\n"
              "routes.workspace.clear()\n"
              "out = []\n"
              "for _ in range(3):\n"
              "    try:\n"
              "        g = routes.get_task_graph()\n"
              "        out.append(['ok', sorted(t.display for t in g.root_tasks), len(g.tasks)])\n"
              "    except HTTPException as ex:\n"
              "        out.append(['http', ex.status_code])\n"
              "print(json.dumps(out))\n")
    projects = {
        "sound": ({"COND": 'run_command(name="top", run="true", deps=["//p:mid"])\n', "p/COND": 'run_command(name="mid", run="true", deps=[":leaf"])\nrun_command(name="leaf", run="true")\n'},
                  [["ok", ["//:top"], 3]] * 3),
        "cyclic": ({"COND": 'run_command(name="top", run="true", deps=["//p:mid"])\n', "p/COND": 'run_command(name="mid", run="true", deps=[":leaf"])\nrun_command(name="leaf", run="true", deps=[":mid"])\n'},
                   [["http", 400]] * 3),
        "dangling": ({"COND": 'run_command(name="top", run="true", deps=["//p:gone"])\n', "p/COND": 'run_command(name="mid", run="true")\n'}, [["http", 400]] * 3),
    }
    genv = dict(os.environ, **select_util.GIT_ENV)
    drv = os.path.join(base, "driver.py")
    open(drv, "w").write(driver)
    for name, (files, want) in projects.items():
        root = os.path.join(base, "repo-" + name)
        os.makedirs(root)
        for rel, text in dict(files, **{"cond_config.toml": "", ".gitignore": "cond-out\n"}).items():
            pth = os.path.join(root, rel)
            os.makedirs(os.path.dirname(pth), exist_ok=True)
            open(pth, "w").write(text)
        for argv in (["init", "-q", "-b", "main"], ["config", "user.email", "v@example.org"], ["config", "user.name", "v"], ["add", "-A"], ["commit", "-q", "-m", "c0"]):
            subprocess.run(["git"] + argv, cwd=root, check=True, capture_output=True, env=genv)
        r = subprocess.run([PY, drv, root], cwd=root, env=dict(genv, PYTHONPATH=os.path.join(copy, "src")), capture_output=True, text=True, timeout=120)
        chk.coverage["evaluations"] += 3
        chk.count("explorer requests", name, 3)
        try:
            got = json.loads(r.stdout.strip().splitlines()[-1])
        except (ValueError, IndexError):
            chk.violation("correspondence", "explorer_repeated_requests: the routes module could not be driven: %s" % (r.stdout + r.stderr)[-300:], {"theorem_or_tie": "explorer routes driver"}, found_input=False)
            continue
        if name == "sound":
            got = [[g[0], [x if isinstance(x, str) else str(x) for x in g[1]], g[2]] if g[0] == "ok" else g for g in got]
        bad = [k for k in range(3) if k >= len(got) or (got[k] != want[k] if name != "sound" else (got[k][0] != "ok" or got[k][2] != 3 or len(got[k][1]) != 1))]
        if bad:
            chk.violation("impl-violation", "explorer task-graph request, %s project, request #%d of one process: got %r (all three answers: %r)" % (name, bad[0] + 1, got[bad[0]] if bad[0] < len(got) else None, got),
                          {"input": {"part": "explorer-requests", "project": name, "files": files}, "impl_observation": got, "oracle_verdict": "expected %r every time" % (want[0],)},
                          match_key={"explorer": "repeated requests"}, size=3)
        else:
            chk.coverage["traces_validated_against_impl"] += 3
    shutil.rmtree(base, ignore_errors=True)


def cli_part(chk, tier):
    """through the command line (cli/run.py), where the closure is loaded before anything is planned: a project that
    ran successfully is edited so that the graph BELOW an already recorded (cached) experiment becomes defective;
    `cond run T` and `cond run --check T` must both report the matching error and execute nothing."""
    import implrun
    from implrun import strip_ansi

    healthy = ('run_experiment(name="exp", run="echo exp >> %(log)s", deps=[":prep"])\n'
               'run_command(name="prep", run="echo prep >> %(log)s", deps=[":base"])\n'
               'run_command(name="base", run="echo base >> %(log)s")\n')
    variants = {
        "cycle below a cached task": (healthy.replace('run_command(name="base", run="echo base >> %(log)s")', 'run_command(name="base", run="echo base >> %(log)s", deps=[":prep"])'), None),
        "undefined dependency below a cached task": (healthy.replace('deps=[":base"]', 'deps=[":base", ":gone"]'), None),
        "duplicate dependency below a cached task": (healthy.replace('deps=[":base"]', 'deps=[":base", "//:base"]'), None),
        "self-loop below a cached task": (healthy.replace('run_command(name="base", run="echo base >> %(log)s")', 'run_command(name="base", run="echo base >> %(log)s", deps=[":base"])'), None),
    }
    for name, (text, _unused) in variants.items():
        root = implrun.make_project({"COND": ""})
        log = os.path.join(root, "spawn.log")
        open(os.path.join(root, "COND"), "w").write(healthy % {"log": log})
        r0 = implrun.run_cond(["run", "//:exp"], root, timeout=60)
        if r0.code != 0:
            chk.violation("correspondence", "harness: the healthy project did not run: %s" % strip_ansi(r0.out + r0.err)[-300:], {"theorem_or_tie": "cli scenario set-up"}, found_input=False)
            continue
        before = open(log).read()
        open(os.path.join(root, "COND"), "w").write(text % {"log": log})
        diag = {}
        for argv in (["run", "//:exp"], ["run", "--check", "//:exp"], ["run", "//:exp", "--stop-early"]):
            r = implrun.run_cond(argv, root, timeout=60)
            chk.coverage["evaluations"] += 1
            chk.count("cli", name)
            out = strip_ansi(r.out + r.err)
            after = open(log).read()
            first_error = next((l.strip() for l in out.splitlines() if l.strip().startswith("ERROR")), None)
            diag[" ".join(argv)] = first_error
            problems = []
            if r.code == 0:
                problems.append("exited 0 (%r)" % out[-200:])
            elif first_error is None or "Traceback" in out:
                problems.append("failed without an ERROR diagnostic (%r)" % out[-300:])
            if after != before:
                problems.append("executed tasks: %r" % after[len(before):])
            for msg in problems:
                chk.violation("impl-violation", "`cond %s` on a project with a %s: %s" % (" ".join(argv), name, msg),
                              {"input": {"part": "cli", "cond": text % {"log": "LOG"}, "argv": argv, "history": "healthy project run once (//:exp recorded), then COND edited"},
                               "impl_observation": {"exit": r.code, "output": out[-800:]}, "oracle_verdict": msg}, match_key={"cli": name}, size=3)
            if not problems:
                chk.coverage["traces_validated_against_impl"] += 1
        if len({d for d in diag.values() if d is not None}) > 1:
            chk.violation("impl-violation", "a project with a %s is diagnosed differently with and without --check: %r" % (name, diag),
                          {"input": {"part": "cli", "cond": text % {"log": "LOG"}}, "impl_observation": diag}, match_key={"cli": name}, size=3)


def scope_part(chk, tier):
    """an acyclic, complete multi-file project in which one COND file rebinds a name of the COND scope for its own use
    (a wrapper around run_command): every target is accepted, whatever the order in which the files get parsed, and
    exactly the reachable tasks run"""
    import implrun
    from implrun import strip_ansi

    root = implrun.make_project({"COND": ""})
    log = os.path.join(root, "spawn.log")
    files = {
        "a/COND": ('_rc = run_command\n'
                   'def run_command(name, run, deps=None):\n'
                   '    _rc(name=name, run=run, deps=[":pre"] + list(deps or []))\n'
                   '_rc(name="pre", run="echo a-pre >> %s")\n'
                   'run_command(name="x", run="echo a-x >> %s")\n' % (log, log)),
        "b/COND": 'run_command(name="y", run="echo b-y >> %s")\n' % log,
        "COND": ('run_command(name="ab", run="echo ab >> %s", deps=["//a:x", "//b:y"])\n'
                 'run_command(name="ba", run="echo ba >> %s", deps=["//b:y", "//a:x"])\n'
                 'run_command(name="only-b", run="echo only-b >> %s", deps=["//b:y"])\n' % (log, log, log)),
    }
    for rel, text in files.items():
        os.makedirs(os.path.dirname(os.path.join(root, rel)) or root, exist_ok=True)
        open(os.path.join(root, rel), "w").write(text)
    expect = {"//:ab": {"a-pre", "a-x", "b-y", "ab"}, "//:ba": {"a-pre", "a-x", "b-y", "ba"}, "//:only-b": {"b-y", "only-b"}, "//a:x": {"a-pre", "a-x"}}
    for target, want in expect.items():
        for extra in ([], ["--check"]):
            if os.path.exists(log):
                os.remove(log)
            r = implrun.run_cond(["run", target] + extra, root, timeout=60)
            chk.coverage["evaluations"] += 1
            chk.count("cli", "scope rebinding")
            ran = set(open(log).read().split()) if os.path.exists(log) else set()
            out = strip_ansi(r.out + r.err)
            if r.code != 0 or ran != (set() if extra else want):
                chk.violation("impl-violation", "`cond run %s%s` on an acyclic, complete project (a/COND wraps run_command for its own tasks): exit %s, executed %s, expected exit 0 and %s: %r"
                              % (target, " --check" if extra else "", r.code, sorted(ran), sorted(set() if extra else want), out[-300:]),
                              {"input": {"part": "cli-scope", "files": {k: v.replace(log, "LOG") for k, v in files.items()}, "argv": ["run", target] + extra},
                               "impl_observation": {"exit": r.code, "executed": sorted(ran), "output": out[-800:]}}, match_key={"cli": "scope"}, size=4)
            else:
                chk.coverage["traces_validated_against_impl"] += 1


def both_parts(chk, tier):
    scope_part(chk, tier)
    validate_part(chk, tier)
    cli_part(chk, tier)
    explorer_loading(chk)
    explorer_repeated_requests(chk)


def run(tier, seed, replay=None):
    return run_prop("C14", tier, seed, replay, extra_part=both_parts)
