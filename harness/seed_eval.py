#!/venv/bin/python
"""Evaluate a seeded breakage: seed_eval.py <prop> <seed-dir> [check ids...]
 - copies /repo (without .git) to /dev/shm/seedrun-<pid>, applies <seed-dir>/patch.diff
 - runs the pinned suite on the copy (must still give the baseline passes)
 - runs <seed-dir>/demo.py against /repo/src (must pass) and against the copy (must fail)
 - runs the listed checks (default: the property's own) with VERIF_REPO=<copy>
 - writes <seed-dir>/meta.json"""
import json
import os
import shutil
import subprocess
import sys
import time

VERIF = os.path.dirname(os.path.dirname(os.path.abspath(__file__)))


def sh(cmd, **kw):
    p = subprocess.run(cmd, capture_output=True, text=True, **kw)
    return p.returncode, (p.stdout + p.stderr)


def main():
    prop, sdir = sys.argv[1], os.path.abspath(sys.argv[2])
    checks = sys.argv[3:] or [prop]
    copy = "/dev/shm/seedrun-%d" % os.getpid()
    shutil.rmtree(copy, ignore_errors=True)
    shutil.copytree("/repo", copy, symlinks=True, ignore=shutil.ignore_patterns(".git", "__pycache__", "node_modules"))
    meta = {"property": prop, "seed": os.path.relpath(sdir, VERIF), "checks": {}}
    rc, out = sh(["patch", "-p1", "-i", os.path.join(sdir, "patch.diff")], cwd=copy)
    meta["patch_applies"] = rc == 0
    if rc != 0:
        meta["patch_output"] = out[-500:]
    env = dict(os.environ, PYTHONPATH=os.path.join(copy, "src"), PYTHONDONTWRITEBYTECODE="1")
    rc, out = sh(["/venv/bin/python", "-m", "pytest", "-q", "-p", "no:cacheprovider", "--timeout=900", "--continue-on-collection-errors"], cwd=copy, env=env)
    meta["suite_with_change"] = out.strip().splitlines()[-1] if out.strip() else ""
    for label, src in (("clean", "/repo/src"), ("changed", os.path.join(copy, "src"))):
        t0 = time.time()
        try:
            p = subprocess.run(["/venv/bin/python", os.path.join(sdir, "demo.py")], capture_output=True, text=True, timeout=900,
                               env=dict(os.environ, COND_SRC=src, COND_PYTHON="/venv/bin/python", PYTHONPATH=src, PYTHONDONTWRITEBYTECODE="1"))
            rc, out = p.returncode, p.stdout + p.stderr
        except subprocess.TimeoutExpired:
            rc, out = 124, "TIMEOUT"
        meta["demo_" + label] = {"exit": rc, "tail": out[-400:], "wall_s": round(time.time() - t0, 1)}
    for chk in checks:
        t0 = time.time()
        p = subprocess.run([os.path.join(VERIF, "check"), chk, "--tier", os.environ.get("SEED_TIER", "quick")], env=dict(os.environ, VERIF_REPO=copy), capture_output=True, text=True)
        viol = [l for l in p.stdout.splitlines() if l.startswith("VIOLATION")]
        first = next((l.strip() for l in p.stdout.splitlines() if l.strip().startswith("!")), "")
        meta["checks"][chk] = {"exit": p.returncode, "caught": p.returncode == 1 and bool(viol), "first": first[:400], "n_violation_lines": len(viol),
                               "no_failing_input_found": any(l.endswith("no-failing-input-found") for l in viol[:1]), "wall_s": round(time.time() - t0, 1)}
    shutil.rmtree(copy, ignore_errors=True)
    readme = os.path.join(sdir, "README.md")
    if os.path.exists(readme):
        meta["needs_to_manifest"] = "see README.md"
    if not meta["patch_applies"]:
        meta["status"] = "PATCH DOES NOT APPLY to the current tree (rebase it by hand; keep patch.orig.diff): nothing below means anything"
    elif meta["demo_changed"]["exit"] == 0:
        meta["status"] = ("neutralised: with the change applied to the CURRENT tree the demonstration passes, i.e. the change no longer breaks the "
                          "property (see NOTE.md in the seed directory if present); a check that stays silent is right")
    elif any(v["caught"] for v in meta["checks"].values()):
        meta["status"] = "caught"
    else:
        meta["status"] = "MISSED"
    meta["what_i_ran"] = "harness/seed_eval.py %s %s %s" % (prop, os.path.relpath(sdir, VERIF), " ".join(checks))
    json.dump(meta, open(os.path.join(sdir, "meta.json"), "w"), indent=1)
    print(json.dumps({"seed": meta["seed"], "applies": meta["patch_applies"], "suite": meta["suite_with_change"], "demo_clean": meta["demo_clean"]["exit"], "demo_changed": meta["demo_changed"]["exit"],
                      "checks": {k: (v["caught"], v["first"][:120]) for k, v in meta["checks"].items()}}))


if __name__ == "__main__":
    main()
