"""Collect the one-line JSON results of harness/seed_eval.py / harmless_eval.py (one file per shard) into
seeded/summary.txt and harmless/summary.txt.   usage: seed_summary.py <label> <seed result files...> -- <harmless result files...>"""
import json
import os
import sys

VERIF = os.path.dirname(os.path.dirname(os.path.abspath(__file__)))


def rows(paths):
    out = {}
    for p in paths:
        for line in open(p, encoding="utf-8"):
            line = line.strip()
            if line.startswith("{"):
                r = json.loads(line)
                out[r.get("seed") or r.get("change")] = r      # a later file overrides an earlier one
    return out


def main():
    label = sys.argv[1]
    args = sys.argv[2:]
    cut = args.index("--")
    seeds, harmless = rows(args[:cut]), rows(args[cut + 1:])
    lines, tally = [], {}
    for name in sorted(seeds):
        r = seeds[name]
        neutral = os.path.exists(os.path.join(VERIF, name, "NOTE.md"))
        caught = any(v[0] for v in r["checks"].values())
        status = "caught" if caught else ("neutralised" if neutral else "MISSED")
        tally[status] = tally.get(status, 0) + 1
        lines.append("%-14s %-12s applies=%s suite=[%s] checks=%s" % (name, status, r.get("applies", True), r.get("suite"), {k: ("caught" if v[0] else "quiet") for k, v in r["checks"].items()}))
    with open(os.path.join(VERIF, "seeded", "summary.txt"), "w", encoding="utf-8") as f:
        f.write("%d seeded changes (rounds 1-10, a-o per property), re-evaluated %s, each in a private copy of /verif: %s\n\n" % (len(seeds), label, tally))
        f.write("\n".join(lines) + "\n")
    hl, quiet, nofail, withinput = [], 0, 0, 0
    for name in sorted(harmless):
        r = harmless[name]
        for k, v in r["checks"].items():
            if not v[0]:
                quiet += 1
                verdict = "quiet"
            elif v[1]:
                nofail += 1
                verdict = "alarm without a failing input: " + v[2][:160]
            else:
                withinput += 1
                verdict = "ALARM WITH A CLAIMED INPUT (false alarm): " + v[2][:160]
            hl.append("%-16s %-4s applies=%s suite=[%s] %s" % (name, k, r.get("applies", True), r.get("suite"), verdict))
    with open(os.path.join(VERIF, "harmless", "summary.txt"), "w", encoding="utf-8") as f:
        f.write("behaviour-preserving changes (fresh sub-agents; property text + scratch worktree only; plus harmless/self/*), re-evaluated %s: %d evaluations, %d quiet, "
                "%d alarms without a failing input (a proof obligation / the harness no longer fits the rewritten code), %d alarms with a concrete input (false alarms)\n\n"
                % (label, quiet + nofail + withinput, quiet, nofail, withinput))
        f.write("\n".join(hl) + "\n")
    print(tally, quiet, nofail, withinput)


if __name__ == "__main__":
    main()
