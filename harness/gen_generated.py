#!/venv/bin/python
"""Translator: regenerates coq/Gen/Generated.v from the working tree of the repository.

What it reads (from $VERIF_REPO/src, default /repo/src):
  * the five compiled patterns of task_identifier.py and cli/gc.py  -> regex ASTs (via CPython's
    own re._parser), the end anchor, and the method the source applies to each (ast scan);
  * every string constant of config.py;
  * the task-type schema/defaults table (reflection of conductor.task_types.raw_task_types).

Fail-closed: a construct outside the supported fragment makes the item's definition absent from
Generated.v (and listed in Gen/status.json), so every Coq file that needs it stops compiling and
the dependent properties report a broken tie instead of silently using a stale value.
"""
import ast
import json
import os
import sys
import typing

REPO = os.environ.get("VERIF_REPO", "/repo")
SRC = os.path.join(REPO, "src")
HERE = os.path.dirname(os.path.abspath(__file__))
OUT_DIR = os.path.join(os.path.dirname(HERE), "coq", "Gen")


class Unsupported(Exception):
    pass


# ----------------------------------------------------------------------------- regex -> Coq
MAXCP = 0x10FFFF


def _cls(ranges):
    return "Cls [" + "; ".join("(%d, %d)" % (lo, hi) for lo, hi in ranges) + "]"


def _complement(ranges):
    out = []
    cur = 0
    for lo, hi in sorted(ranges):
        if lo > cur:
            out.append((cur, lo - 1))
        cur = max(cur, hi + 1)
    if cur <= MAXCP:
        out.append((cur, MAXCP))
    return out


def _seq(items):
    if not items:
        return "Eps"
    res = items[-1]
    for it in reversed(items[:-1]):
        res = "Cat (%s) (%s)" % (it, res)
    return res


def _tr_items(items):
    import re._constants as C  # type: ignore

    out = []
    for op, av in items:
        if op is C.LITERAL:
            out.append(_cls([(av, av)]))
        elif op is C.NOT_LITERAL:
            out.append(_cls(_complement([(av, av)])))
        elif op is C.ANY:
            out.append(_cls(_complement([(10, 10)])))
        elif op is C.IN:
            neg = False
            rs = []
            for iop, iav in av:
                if iop is C.NEGATE:
                    neg = True
                elif iop is C.RANGE:
                    rs.append((iav[0], iav[1]))
                elif iop is C.LITERAL:
                    rs.append((iav, iav))
                else:
                    raise Unsupported("class item %s" % (iop,))
            out.append(_cls(_complement(rs) if neg else rs))
        elif op is C.SUBPATTERN:
            _group, add_flags, del_flags, p = av
            if add_flags or del_flags:
                raise Unsupported("inline flags")
            out.append(_seq(_tr_items(list(p))))
        elif op is C.BRANCH:
            _, alts = av
            terms = [_seq(_tr_items(list(a))) for a in alts]
            res = terms[-1]
            for t in reversed(terms[:-1]):
                res = "Alt (%s) (%s)" % (t, res)
            out.append(res)
        elif op in (C.MAX_REPEAT, C.MIN_REPEAT):
            lo, hi, p = av
            inner = _seq(_tr_items(list(p)))
            if hi is C.MAXREPEAT:
                if lo > 8:
                    raise Unsupported("repeat lower bound %d" % lo)
                out.append(_seq(["(%s)" % inner] * lo + ["Star (%s)" % inner]))
            else:
                if hi > 8:
                    raise Unsupported("repeat upper bound %d" % hi)
                out.append(_seq(["(%s)" % inner] * lo + ["Opt (%s)" % inner] * (hi - lo)))
        else:
            raise Unsupported("regex op %s" % (op,))
    return out


def translate_pattern(pat):
    """compiled pattern -> (coq body, end anchor)"""
    import re
    import re._constants as C  # type: ignore
    import re._parser as P  # type: ignore

    if pat.flags & ~re.UNICODE:
        raise Unsupported("flags %r" % pat.flags)
    items = list(P.parse(pat.pattern))
    if items and items[0][0] is C.AT and items[0][1] is C.AT_BEGINNING:
        items = items[1:]
    anchor = "NoEnd"
    if items and items[-1][0] is C.AT:
        if items[-1][1] is C.AT_END:
            anchor = "Dollar"
        elif items[-1][1] is C.AT_END_STRING:
            anchor = "EndZ"
        else:
            raise Unsupported("anchor %s" % (items[-1][1],))
        items = items[:-1]
    for op, _ in items:
        if op is C.AT:
            raise Unsupported("inner anchor")
    # anchors nested deeper are rejected by _tr_items (AT is not a supported op there)
    return _seq(_tr_items(items)), anchor


def methods_applied(module_file, var):
    """Which re methods does the module call on global `var`?"""
    tree = ast.parse(open(module_file, encoding="utf-8").read())
    found = set()
    other_use = False
    for node in ast.walk(tree):
        if isinstance(node, ast.Attribute) and isinstance(node.value, ast.Name) and node.value.id == var:
            found.add(node.attr)
    # every load of the name must be through an attribute call we saw
    loads = [n for n in ast.walk(tree) if isinstance(n, ast.Name) and n.id == var and isinstance(n.ctx, ast.Load)]
    attr_loads = [
        n for n in ast.walk(tree) if isinstance(n, ast.Attribute) and isinstance(n.value, ast.Name) and n.value.id == var
    ]
    if len(loads) != len(attr_loads):
        other_use = True
    return found, other_use


def _cmt(text):
    """make text safe inside a Coq comment"""
    return text.replace("(*", "( *").replace("*)", "* )").replace('"', "''")


def regex_item(modname, var, coqname):
    import importlib

    mod = importlib.import_module(modname)
    pat = getattr(mod, var)
    body, anchor = translate_pattern(pat)
    methods, other = methods_applied(mod.__file__, var)
    if other:
        raise Unsupported("%s.%s escapes (used other than by a method call)" % (modname, var))
    if methods == {"match"}:
        meth = "MMatch"
    elif methods == {"fullmatch"}:
        meth = "MFullmatch"
    else:
        raise Unsupported("%s.%s applied with %s" % (modname, var, sorted(methods)))
    return (
        "(* %s.%s = %r, applied with .%s *)\n"
        "Definition %s : pyre :=\n  {| body := %s;\n     anchor := %s;\n     meth := %s |}.\n"
        % (modname, var, _cmt(pat.pattern), sorted(methods)[0], coqname, body, anchor, meth)
    )


# ----------------------------------------------------------------------------- constants
def coq_str(s):
    return "[" + "; ".join(str(ord(c)) for c in s) + "]"


CONFIG_NAMES = [
    "COND_FILE_NAME",
    "CONFIG_FILE_NAME",
    "OUTPUT_DIR",
    "TASK_OUTPUT_DIR_SUFFIX",
    "VERSION_INDEX_NAME",
    "OUTPUT_ENV_VARIABLE_NAME",
    "DEPS_ENV_VARIABLE_NAME",
    "DEPS_ENV_PATH_SEPARATOR",
    "TASK_NAME_ENV_VARIABLE_NAME",
    "SLOT_ENV_VARIABLE_NAME",
    "ARCHIVE_VERSION_INDEX",
    "ARCHIVE_STAGING",
    "STDOUT_LOG_FILE",
    "STDERR_LOG_FILE",
    "EXP_OPTION_CMD_FORMAT",
    "EXP_OPTION_JSON_FILE_NAME",
    "EXP_ARGS_JSON_FILE_NAME",
    "COND_INCLUDE_EXTENSION",
]


def config_item(name):
    import conductor.config as cfg

    v = getattr(cfg, name)
    if not isinstance(v, str):
        raise Unsupported("config.%s is not a str" % name)
    return "Definition cfg_%s : list N := %s. (* %s *)\n" % (name, coq_str(v), _cmt(repr(v)))


# ----------------------------------------------------------------------------- schema table
def coq_type(t):
    if t is str:
        return "TStr"
    if t is bool:
        return "TBool"
    if t is list:
        return "TList"
    if t is dict:
        return "TDict"
    if isinstance(t, list) and len(t) == 1:
        return "(TListOf %s)" % coq_type(t[0])
    if typing.get_origin(t) is typing.Union:
        args = typing.get_args(t)
        if len(args) == 2 and type(None) in args:
            inner = [a for a in args if a is not type(None)][0]
            return "(TOpt %s)" % coq_type(inner)
    raise Unsupported("schema type %r" % (t,))


def coq_default(v):
    if v is None:
        return "DNone"
    if v is True:
        return "(DBool true)"
    if v is False:
        return "(DBool false)"
    if v == [] and isinstance(v, list):
        return "DEmptyList"
    if v == {} and isinstance(v, dict):
        return "DEmptyDict"
    raise Unsupported("default value %r" % (v,))


def schema_item():
    from conductor.task_types import raw_task_types

    rows = []
    for name, rt in raw_task_types.items():
        if name != rt.name:
            raise Unsupported("raw task type keyed under another name")
        schema = rt._schema  # pylint: disable=protected-access
        defaults = rt._defaults  # pylint: disable=protected-access
        sch = "; ".join("(%s, %s)" % (coq_str(k), coq_type(t)) for k, t in schema.items())
        dfl = "; ".join("(%s, %s)" % (coq_str(k), coq_default(v)) for k, v in defaults.items())
        full = rt._full_type.__name__  # pylint: disable=protected-access
        rows.append(
            "  (* %s -> %s *)\n  {| tt_name := %s;\n     tt_schema := [%s];\n     tt_defaults := [%s];\n     tt_full := %s |}"
            % (name, full, coq_str(name), sch, dfl, coq_str(full))
        )
    return "Definition task_type_table : list task_type_row :=\n[\n" + ";\n".join(rows) + "\n].\n"


# ----------------------------------------------------------------------------- main
HEADER = """(* GENERATED by harness/gen_generated.py from %s -- do not edit; rewritten on every run. *)
From Coq Require Import List NArith.
From Conductor Require Import Lib.Regex Lib.PyRegex Lib.SchemaTypes.
Import ListNotations.
Local Open Scope N_scope.

"""

REGEXES = [
    ("conductor.task_identifier", "_NAME_REGEX", "name_regex"),
    ("conductor.task_identifier", "_TASK_IDENTIFIER_REGEX", "task_identifier_regex"),
    ("conductor.task_identifier", "_RELATIVE_TASK_IDENTIFIER_REGEX", "relative_task_identifier_regex"),
    ("conductor.cli.gc", "_EXPERIMENT_TASK_REGEX", "gc_experiment_task_regex"),
    ("conductor.cli.gc", "_REGULAR_TASK_REGEX", "gc_regular_task_regex"),
]


def generate():
    sys.path.insert(0, SRC)
    import conductor  # noqa: F401

    if not os.path.realpath(conductor.__file__).startswith(os.path.realpath(SRC)):
        raise RuntimeError("conductor imported from %s, not from %s" % (conductor.__file__, SRC))
    parts = [HEADER % SRC]
    failures = {}
    for modname, var, coqname in REGEXES:
        try:
            parts.append(regex_item(modname, var, coqname))
        except Exception as ex:  # pylint: disable=broad-except
            failures[coqname] = "%s: %s" % (type(ex).__name__, ex)
            parts.append("(* %s: NOT TRANSLATED: %s *)\n" % (coqname, str(ex).replace("*)", "* )")))
    for name in CONFIG_NAMES:
        try:
            parts.append(config_item(name))
        except Exception as ex:  # pylint: disable=broad-except
            failures["cfg_" + name] = "%s: %s" % (type(ex).__name__, ex)
    try:
        parts.append(schema_item())
    except Exception as ex:  # pylint: disable=broad-except
        failures["task_type_table"] = "%s: %s" % (type(ex).__name__, ex)
        parts.append("(* task_type_table: NOT TRANSLATED: %s *)\n" % str(ex).replace("*)", "* )"))
    return "\n".join(parts), failures


def main():
    text, failures = generate()
    os.makedirs(OUT_DIR, exist_ok=True)
    path = os.path.join(OUT_DIR, "Generated.v")
    old = open(path, encoding="utf-8").read() if os.path.exists(path) else None
    changed = old != text
    if changed:
        tmp = path + ".tmp.%d" % os.getpid()
        with open(tmp, "w", encoding="utf-8") as f:
            f.write(text)
        os.replace(tmp, path)
    with open(os.path.join(OUT_DIR, "status.json"), "w", encoding="utf-8") as f:
        json.dump({"source": SRC, "failures": failures, "changed": changed}, f, indent=1)
    print("generated %s (changed=%s, failures=%s)" % (path, changed, sorted(failures)))
    return 0


if __name__ == "__main__":
    sys.exit(main())
