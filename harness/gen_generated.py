#!/venv/bin/python
"""Translator: regenerates coq/Gen/Generated.v from the working tree of the repository.

What it reads (from $VERIF_REPO/src, default /repo/src):
  * the five compiled patterns of task_identifier.py and cli/gc.py  -> regex ASTs (via CPython's
    own re._parser), the end anchor, and the method the source applies to each (ast scan);
  * every string constant of config.py;
  * the task-type schema/defaults table (reflection of conductor.task_types.raw_task_types).

Fail-closed: a construct outside the supported fragment makes the item's definition absent from
Generated.v (and listed in Gen/status.json), so every Coq file that needs it stops compiling and
the dependent properties report a broken tie instead of silently using a stale value.
"""
import ast
import json
import os
import sys
import typing

REPO = os.environ.get("VERIF_REPO", "/repo")
SRC = os.path.join(REPO, "src")
HERE = os.path.dirname(os.path.abspath(__file__))
OUT_DIR = os.path.join(os.path.dirname(HERE), "coq", "Gen")


class Unsupported(Exception):
    pass


# ----------------------------------------------------------------------------- regex -> Coq
MAXCP = 0x10FFFF


def _cls(ranges):
    return "Cls [" + "; ".join("(%d, %d)" % (lo, hi) for lo, hi in ranges) + "]"


def _complement(ranges):
    out = []
    cur = 0
    for lo, hi in sorted(ranges):
        if lo > cur:
            out.append((cur, lo - 1))
        cur = max(cur, hi + 1)
    if cur <= MAXCP:
        out.append((cur, MAXCP))
    return out


def _seq(items):
    if not items:
        return "Eps"
    res = items[-1]
    for it in reversed(items[:-1]):
        res = "Cat (%s) (%s)" % (it, res)
    return res


def _tr_items(items):
    import re._constants as C  # type: ignore

    out = []
    for op, av in items:
        if op is C.LITERAL:
            out.append(_cls([(av, av)]))
        elif op is C.NOT_LITERAL:
            out.append(_cls(_complement([(av, av)])))
        elif op is C.ANY:
            out.append(_cls(_complement([(10, 10)])))
        elif op is C.IN:
            neg = False
            rs = []
            for iop, iav in av:
                if iop is C.NEGATE:
                    neg = True
                elif iop is C.RANGE:
                    rs.append((iav[0], iav[1]))
                elif iop is C.LITERAL:
                    rs.append((iav, iav))
                else:
                    raise Unsupported("class item %s" % (iop,))
            out.append(_cls(_complement(rs) if neg else rs))
        elif op is C.SUBPATTERN:
            _group, add_flags, del_flags, p = av
            if add_flags or del_flags:
                raise Unsupported("inline flags")
            out.append(_seq(_tr_items(list(p))))
        elif op is C.BRANCH:
            _, alts = av
            terms = [_seq(_tr_items(list(a))) for a in alts]
            res = terms[-1]
            for t in reversed(terms[:-1]):
                res = "Alt (%s) (%s)" % (t, res)
            out.append(res)
        elif op in (C.MAX_REPEAT, C.MIN_REPEAT):
            lo, hi, p = av
            inner = _seq(_tr_items(list(p)))
            if hi is C.MAXREPEAT:
                if lo > 8:
                    raise Unsupported("repeat lower bound %d" % lo)
                out.append(_seq(["(%s)" % inner] * lo + ["Star (%s)" % inner]))
            else:
                if hi > 8:
                    raise Unsupported("repeat upper bound %d" % hi)
                out.append(_seq(["(%s)" % inner] * lo + ["Opt (%s)" % inner] * (hi - lo)))
        else:
            raise Unsupported("regex op %s" % (op,))
    return out


def translate_pattern(pat):
    """compiled pattern -> (coq body, end anchor)"""
    import re
    import re._constants as C  # type: ignore
    import re._parser as P  # type: ignore

    if pat.flags & ~re.UNICODE:
        raise Unsupported("flags %r" % pat.flags)
    items = list(P.parse(pat.pattern))
    if items and items[0][0] is C.AT and items[0][1] is C.AT_BEGINNING:
        items = items[1:]
    anchor = "NoEnd"
    if items and items[-1][0] is C.AT:
        if items[-1][1] is C.AT_END:
            anchor = "Dollar"
        elif items[-1][1] is C.AT_END_STRING:
            anchor = "EndZ"
        else:
            raise Unsupported("anchor %s" % (items[-1][1],))
        items = items[:-1]
    for op, _ in items:
        if op is C.AT:
            raise Unsupported("inner anchor")
    # anchors nested deeper are rejected by _tr_items (AT is not a supported op there)
    return _seq(_tr_items(items)), anchor


def methods_applied(module_file, var):
    """Which re methods does the module call on global `var`?"""
    tree = ast.parse(open(module_file, encoding="utf-8").read())
    found = set()
    other_use = False
    for node in ast.walk(tree):
        if isinstance(node, ast.Attribute) and isinstance(node.value, ast.Name) and node.value.id == var:
            found.add(node.attr)
    # every load of the name must be through an attribute call we saw
    loads = [n for n in ast.walk(tree) if isinstance(n, ast.Name) and n.id == var and isinstance(n.ctx, ast.Load)]
    attr_loads = [
        n for n in ast.walk(tree) if isinstance(n, ast.Attribute) and isinstance(n.value, ast.Name) and n.value.id == var
    ]
    if len(loads) != len(attr_loads):
        other_use = True
    return found, other_use


def _cmt(text):
    """make text safe inside a Coq comment"""
    return text.replace("(*", "( *").replace("*)", "* )").replace('"', "''")


def regex_item(modname, var, coqname):
    import importlib

    mod = importlib.import_module(modname)
    pat = getattr(mod, var)
    body, anchor = translate_pattern(pat)
    methods, other = methods_applied(mod.__file__, var)
    if other:
        raise Unsupported("%s.%s escapes (used other than by a method call)" % (modname, var))
    if methods == {"match"}:
        meth = "MMatch"
    elif methods == {"fullmatch"}:
        meth = "MFullmatch"
    else:
        raise Unsupported("%s.%s applied with %s" % (modname, var, sorted(methods)))
    return (
        "(* %s.%s = %r, applied with .%s *)\n"
        "Definition %s : pyre :=\n  {| body := %s;\n     anchor := %s;\n     meth := %s |}.\n"
        % (modname, var, _cmt(pat.pattern), sorted(methods)[0], coqname, body, anchor, meth)
    )


# ----------------------------------------------------------------------------- constants
def coq_str(s):
    return "[" + "; ".join(str(ord(c)) for c in s) + "]"


CONFIG_NAMES = [
    "COND_FILE_NAME",
    "CONFIG_FILE_NAME",
    "OUTPUT_DIR",
    "TASK_OUTPUT_DIR_SUFFIX",
    "VERSION_INDEX_NAME",
    "OUTPUT_ENV_VARIABLE_NAME",
    "DEPS_ENV_VARIABLE_NAME",
    "DEPS_ENV_PATH_SEPARATOR",
    "TASK_NAME_ENV_VARIABLE_NAME",
    "SLOT_ENV_VARIABLE_NAME",
    "ARCHIVE_VERSION_INDEX",
    "ARCHIVE_STAGING",
    "STDOUT_LOG_FILE",
    "STDERR_LOG_FILE",
    "EXP_OPTION_CMD_FORMAT",
    "EXP_OPTION_JSON_FILE_NAME",
    "EXP_ARGS_JSON_FILE_NAME",
    "COND_INCLUDE_EXTENSION",
]


def config_item(name):
    import conductor.config as cfg

    v = getattr(cfg, name)
    if not isinstance(v, str):
        raise Unsupported("config.%s is not a str" % name)
    return "Definition cfg_%s : list N := %s. (* %s *)\n" % (name, coq_str(v), _cmt(repr(v)))


# ----------------------------------------------------------------------------- schema table
def coq_type(t):
    if t is str:
        return "TStr"
    if t is bool:
        return "TBool"
    if t is list:
        return "TList"
    if t is dict:
        return "TDict"
    if isinstance(t, list) and len(t) == 1:
        return "(TListOf %s)" % coq_type(t[0])
    if typing.get_origin(t) is typing.Union:
        args = typing.get_args(t)
        if len(args) == 2 and type(None) in args:
            inner = [a for a in args if a is not type(None)][0]
            return "(TOpt %s)" % coq_type(inner)
    raise Unsupported("schema type %r" % (t,))


def coq_default(v):
    if v is None:
        return "DNone"
    if v is True:
        return "(DBool true)"
    if v is False:
        return "(DBool false)"
    if v == [] and isinstance(v, list):
        return "DEmptyList"
    if v == {} and isinstance(v, dict):
        return "DEmptyDict"
    raise Unsupported("default value %r" % (v,))


def schema_item():
    from conductor.task_types import raw_task_types

    rows = []
    for name, rt in raw_task_types.items():
        if name != rt.name:
            raise Unsupported("raw task type keyed under another name")
        schema = rt._schema  # pylint: disable=protected-access
        defaults = rt._defaults  # pylint: disable=protected-access
        sch = "; ".join("(%s, %s)" % (coq_str(k), coq_type(t)) for k, t in schema.items())
        dfl = "; ".join("(%s, %s)" % (coq_str(k), coq_default(v)) for k, v in defaults.items())
        full = rt._full_type.__name__  # pylint: disable=protected-access
        rows.append(
            "  (* %s -> %s *)\n  {| tt_name := %s;\n     tt_schema := [%s];\n     tt_defaults := [%s];\n     tt_full := %s |}"
            % (name, full, coq_str(name), sch, dfl, coq_str(full))
        )
    return "Definition task_type_table : list task_type_row :=\n[\n" + ";\n".join(rows) + "\n].\n"


# ----------------------------------------------------------------------------- main
HEADER = """(* GENERATED by harness/gen_generated.py from the repository's working tree%.0s -- do not edit; rewritten on every run
   (the tree it was read from is recorded in Gen/status.json). *)
From Coq Require Import List NArith Bool Arith.
From Conductor Require Import Lib.Regex Lib.PyRegex Lib.SchemaTypes.
Import ListNotations.
Local Open Scope N_scope.

"""

REGEXES = [
    ("conductor.task_identifier", "_NAME_REGEX", "name_regex"),
    ("conductor.task_identifier", "_TASK_IDENTIFIER_REGEX", "task_identifier_regex"),
    ("conductor.task_identifier", "_RELATIVE_TASK_IDENTIFIER_REGEX", "relative_task_identifier_regex"),
    ("conductor.cli.gc", "_EXPERIMENT_TASK_REGEX", "gc_experiment_task_regex"),
    ("conductor.cli.gc", "_REGULAR_TASK_REGEX", "gc_regular_task_regex"),
]


# ----------------------------------------------------------------------------- code fragments -> Coq
# Small decision expressions of the scheduler and of the version generator are translated from the
# Python AST; the hand-written models are proved equal to them (tie lemmas), so a change of the source
# expression breaks a proof obligation.  Strict whitelist; anything else is Unsupported (fail-closed).
_PLAIN_DECORATORS = {"property", "staticmethod", "classmethod", "cli_command", "contextlib.contextmanager", "app.get('/api/1/task_graph')"}


def _undecorated(f, where):
    """a decorator can change what a function does without touching its body (functools.lru_cache turns `a fresh context per call` into
    `the first context for ever`): only the plain ones are accepted"""
    for d in f.decorator_list:
        if ast.unparse(d) not in _PLAIN_DECORATORS:
            raise Unsupported("%s is decorated with @%s" % (where, ast.unparse(d)))
    return f


def _find_method(relpath, cls, name):
    tree = ast.parse(open(os.path.join(SRC, relpath), encoding="utf-8").read())
    for node in tree.body:
        if isinstance(node, ast.ClassDef) and node.name == cls:
            for f in node.body:
                if isinstance(f, ast.FunctionDef) and f.name == name:
                    return _undecorated(f, "%s.%s" % (cls, name))
    raise Unsupported("%s: no method %s.%s" % (relpath, cls, name))


def _body_without_docstring(f):
    body = list(f.body)
    if body and isinstance(body[0], ast.Expr) and isinstance(body[0].value, ast.Constant) and isinstance(body[0].value.value, str):
        body = body[1:]
    return body


def _bexpr(node, leaves, nat_ops, suffix="%nat"):
    """boolean / comparison expression over whitelisted leaves -> Coq text"""
    src = ast.unparse(node)
    if src in leaves:
        return leaves[src]
    if isinstance(node, ast.BoolOp):
        op = {ast.And: " && ", ast.Or: " || "}[type(node.op)]
        parts = [_bexpr(v, leaves, nat_ops, suffix) for v in node.values]
        out = parts[0]
        for q in parts[1:]:
            out = "(%s%s%s)" % (out, op, q)
        return out
    if isinstance(node, ast.UnaryOp) and isinstance(node.op, ast.Not):
        return "(negb %s)" % _bexpr(node.operand, leaves, nat_ops, suffix)
    if isinstance(node, ast.Compare) and len(node.ops) == 1:
        a, b = _aexpr(node.left, leaves, suffix), _aexpr(node.comparators[0], leaves, suffix)
        t = type(node.ops[0])
        if t in nat_ops:
            return nat_ops[t] % (a, b)
    raise Unsupported("expression outside the supported fragment: %s" % src)


def _aexpr(node, leaves, suffix="%nat"):
    src = ast.unparse(node)
    if src in leaves:
        return leaves[src]
    if isinstance(node, ast.Constant) and isinstance(node.value, int) and not isinstance(node.value, bool) and 0 <= node.value < 1000:
        return "%d%s" % (node.value, suffix)
    if isinstance(node, ast.BinOp) and isinstance(node.op, ast.Add):
        return "(%s + %s)" % (_aexpr(node.left, leaves, suffix), _aexpr(node.right, leaves, suffix))
    raise Unsupported("arithmetic outside the supported fragment: %s" % src)


class _Swap(str):
    """format string whose two operands are exchanged (a > b  is  b < a)"""

    def __mod__(self, ab):
        return str.__mod__(self, (ab[1], ab[0]))


NAT_OPS = {ast.Eq: "(Nat.eqb %s %s)", ast.Lt: "(Nat.ltb %s %s)", ast.LtE: "(Nat.leb %s %s)", ast.Gt: _Swap("(Nat.ltb %s %s)"), ast.GtE: _Swap("(Nat.leb %s %s)")}
N_OPS = {ast.Eq: "(%s =? %s)", ast.Lt: "(%s <? %s)", ast.LtE: "(%s <=? %s)"}


def gate_item():
    """Executor._launch_ops_if_able: the two `can_launch_*` conditions and the loop exit test"""
    f = _find_method("conductor/execution/executor.py", "Executor", "_launch_ops_if_able")
    body = _body_without_docstring(f)
    if not (body and isinstance(body[0], ast.While) and isinstance(body[0].test, ast.Constant) and body[0].test.value is True):
        raise Unsupported("_launch_ops_if_able does not start with `while True:`")
    w = body[0].body
    leaves = {"self._ready_to_run.has_ops()": "has_ops", "self._ready_to_run.has_parallelizable_ops()": "has_par",
              "self._running_parallel": "runpar", "len(self._inflight_ops)": "inflight", "self._slots": "slots"}
    defs = []
    names = []
    k = 0
    while k < len(w) and isinstance(w[k], ast.Assign) and len(w[k].targets) == 1 and isinstance(w[k].targets[0], ast.Name):
        nm = w[k].targets[0].id
        defs.append((nm, _bexpr(w[k].value, dict(leaves, **{n: n for n in names}), NAT_OPS)))
        names.append(nm)
        k += 1
    if not names or k >= len(w) or not isinstance(w[k], ast.If) or w[k].orelse or len(w[k].body) != 1 or not isinstance(w[k].body[0], ast.Break):
        raise Unsupported("the launch loop does not have the shape <conditions>; if <test>: break")
    stop = _bexpr(w[k].test, {n: n for n in names}, NAT_OPS)
    lets = "".join("  let %s := %s in\n" % d for d in defs)
    return ("(* conductor/execution/executor.py Executor._launch_ops_if_able: `%s` ends the launch loop *)\n"
            "Definition gen_gate_open (has_ops has_par runpar : bool) (inflight slots : nat) : bool :=\n%s  negb %s.\n"
            % (_cmt(ast.unparse(w[k].test)), lets, stop))


def _walk_stmts(body):
    for st in body:
        yield st
        for attr in ("body", "orelse", "finalbody"):
            sub = getattr(st, attr, None)
            if isinstance(sub, list):
                yield from _walk_stmts([x for x in sub if isinstance(x, ast.stmt)])
        for h in getattr(st, "handlers", []) or []:
            yield from _walk_stmts(h.body)
        for item in getattr(st, "items", []) or []:
            pass


def loop_item():
    """Executor.run_plan: the main loop's condition and the test that skips the wait when nothing is in flight"""
    f = _find_method("conductor/execution/executor.py", "Executor", "run_plan")
    loops = [st for st in _walk_stmts(f.body) if isinstance(st, ast.While)]
    if len(loops) != 1:
        raise Unsupported("run_plan has %d while loops" % len(loops))
    w = loops[0]
    leaves = {"self._ready_to_run.has_ops()": "has_ops", "len(self._inflight_ops)": "inflight"}
    cond = _bexpr(w.test, leaves, NAT_OPS)
    # body: should_stop = launch(); if should_stop: break; if <nothing in flight>: continue; should_stop = wait(); if should_stop: break
    shape = [type(st).__name__ for st in w.body]
    if shape != ["Assign", "If", "If", "Assign", "If"]:
        raise Unsupported("the main loop's body has the shape %s" % shape)
    a1, i1, i2, a2, i3 = w.body
    if "_launch_ops_if_able" not in ast.unparse(a1.value) or "_wait_for_next_inflight_op" not in ast.unparse(a2.value):
        raise Unsupported("the main loop does not launch and then wait")
    for i in (i1, i3):
        if ast.unparse(i.test) != "should_stop" or len(i.body) != 1 or not isinstance(i.body[0], ast.Break) or i.orelse:
            raise Unsupported("the main loop is not left exactly when should_stop is set")
    if len(i2.body) != 1 or not isinstance(i2.body[0], ast.Continue) or i2.orelse:
        raise Unsupported("the test between launching and waiting does not `continue`")
    skip = _bexpr(i2.test, leaves, NAT_OPS)
    return ("(* conductor/execution/executor.py Executor.run_plan: `while %s:` ... `if %s: continue` *)\n"
            "Definition gen_loop_goes_on (has_ops : bool) (inflight : nat) : bool := %s.\n"
            "Definition gen_skip_wait (inflight : nat) : bool := %s.\n" % (_cmt(ast.unparse(w.test)), _cmt(ast.unparse(i2.test)), cond, skip))


def slot_item():
    """Executor._launch_ops_if_able: when a launched operation is given a slot"""
    f = _find_method("conductor/execution/executor.py", "Executor", "_launch_ops_if_able")
    found = [st for st in _walk_stmts(f.body) if isinstance(st, ast.Assign) and len(st.targets) == 1 and ast.unparse(st.targets[0]) == "slot"]
    if len(found) != 1 or not isinstance(found[0].value, ast.IfExp):
        raise Unsupported("`slot = <a> if <cond> else <b>` not found exactly once")
    e = found[0].value
    if ast.unparse(e.body) != "self._available_slots[-1]" or ast.unparse(e.orelse) != "None":
        raise Unsupported("the slot is not `self._available_slots[-1] if ... else None`")
    cond = _bexpr(e.test, {"self._running_parallel": "runpar", "self._slots": "slots"}, NAT_OPS)
    return ("(* conductor/execution/executor.py Executor._launch_ops_if_able: slot = the top of the free-slot stack if `%s` else None *)\n"
            "Definition gen_wants_slot (runpar : bool) (slots : nat) : bool := %s.\n" % (_cmt(ast.unparse(e.test)), cond))


def prune_item():
    """ExecutionPlanner.create_plan_for: when a first-visited task is reported cached and not traversed further"""
    f = _find_method("conductor/execution/planning/planner.py", "ExecutionPlanner", "create_plan_for")
    found = [st for st in _walk_stmts(f.body) if isinstance(st, ast.If) and "should_run" in ast.unparse(st.test)]
    if len(found) != 1:
        raise Unsupported("%d tests mention should_run" % len(found))
    st = found[0]
    leaves = {"run_again": "again", "lt.task.should_run(self._ctx, at_least_commit)": "should_run"}
    cond = _bexpr(st.test, leaves, NAT_OPS)
    body_src = " ".join(ast.unparse(x) for x in st.body)
    if "cached_tasks.append(lt.task)" not in body_src or "continue" not in body_src:
        raise Unsupported("the pruned branch does not record the task as cached and continue")
    return ("(* conductor/execution/planning/planner.py create_plan_for: `if %s:` the task is reported cached and not traversed *)\n"
            "Definition gen_prune (again should_run : bool) : bool := %s.\n" % (_cmt(ast.unparse(st.test)), cond))


def should_run_item():
    """RunExperiment.should_run: the decision list (which existing version makes a re-run unnecessary)"""
    f = _find_method("conductor/task_types/run.py", "RunExperiment", "should_run")
    body = _body_without_docstring(f)
    leaves = {"self._most_relevant_version is None": "sel_none", "at_least_commit is None": "al_none",
              "self._most_relevant_version.commit_hash is None": "vc_none",
              "self._most_relevant_version.commit_hash == at_least_commit": "same_commit",
              "ctx.git.is_ancestor(at_least_commit, self._most_relevant_version.commit_hash)": "older"}
    skip_calls = {"self._ensure_most_relevant_existing_version_computed(ctx)"}
    skip_assigns = {"self._did_retrieve_version = False"}
    env = dict(leaves)

    def cond(node):
        src = ast.unparse(node)
        if src in env:
            return env[src]
        if isinstance(node, ast.UnaryOp) and isinstance(node.op, ast.Not):
            return "(negb %s)" % cond(node.operand)
        if isinstance(node, ast.BoolOp):
            op = {ast.And: " && ", ast.Or: " || "}[type(node.op)]
            return "(" + op.join(cond(v) for v in node.values) + ")"
        raise Unsupported("condition outside the supported fragment: %s" % src)

    def block(stmts):
        if not stmts:
            raise Unsupported("a path of should_run ends without a return")
        st, rest = stmts[0], stmts[1:]
        src = ast.unparse(st)
        if isinstance(st, ast.Return):
            if isinstance(st.value, ast.Constant) and isinstance(st.value.value, bool):
                return "true" if st.value.value else "false"
            raise Unsupported("should_run returns a non-constant: %s" % src)
        if isinstance(st, ast.Expr) and src in skip_calls:
            return block(rest)
        if isinstance(st, ast.Assign) and src in skip_assigns:
            return block(rest)
        if isinstance(st, ast.Assign) and len(st.targets) == 1 and isinstance(st.targets[0], ast.Name) and ast.unparse(st.value) in env:
            env[st.targets[0].id] = env[ast.unparse(st.value)]
            return block(rest)
        if isinstance(st, ast.If):
            then = block(st.body)
            other = block(st.orelse) if st.orelse else block(rest)
            return "(if %s then %s else %s)" % (cond(st.test), then, other)
        raise Unsupported("statement outside the supported fragment: %s" % src)

    expr = block(body)
    return ("(* conductor/task_types/run.py RunExperiment.should_run *)\n"
            "Definition gen_should_run (sel_none al_none vc_none same_commit older : bool) : bool := %s.\n" % expr)


def select_item():
    """RunExperiment._retrieve_most_relevant_existing_version: how the method starts, the classification loop, the
    closest-version loop (one iteration as a decision over the loop state) and what is returned after the loops"""
    f = _find_method("conductor/task_types/run.py", "RunExperiment", "_retrieve_most_relevant_existing_version")
    body = _body_without_docstring(f)
    LATEST = "ctx.version_index.get_latest_output_version(self._identifier)"
    seen = {"loop1": 0, "loop2": 0, "lists": False, "init": set()}
    names = {}          # local aliases of recognised expressions

    def flat(node):
        src = ast.unparse(node)
        return names.get(src, src)

    def classify_loop(st):
        if ast.unparse(st.target) != "version" or flat(st.iter) != "ALL" or st.orelse or len(st.body) != 1 or not isinstance(st.body[0], ast.If):
            raise Unsupported("the first loop is not `for version in existing_versions: if ...`")
        leaves = {"version.commit_hash is None": "commit_none",
                  "ctx.git.is_ancestor(HEADHASH, candidate_ancestor_hash=version.commit_hash)": "is_anc",
                  "ctx.git.is_ancestor(HEADHASH, version.commit_hash)": "is_anc"}

        def act(stmts):
            if len(stmts) != 1:
                raise Unsupported("a branch of the first loop has %d statements" % len(stmts))
            src = ast.unparse(stmts[0])
            if src == "null_commit_versions.append(version)":
                return "0%N"
            if src == "ancestor_versions.append(version)":
                return "1%N"
            if isinstance(stmts[0], ast.If):
                return branch(stmts[0])
            raise Unsupported("statement of the first loop outside the supported fragment: %s" % src)

        def branch(i):
            test = ast.unparse(i.test).replace("curr_commit.hash", "HEADHASH")
            if test not in leaves:
                raise Unsupported("test of the first loop outside the supported fragment: %s" % test)
            return "(if %s then %s else %s)" % (leaves[test], act(i.body), act(i.orelse) if i.orelse else "2%N")

        return branch(st.body[0])

    def closest_loop(st):
        if ast.unparse(st.target) != "v" or ast.unparse(st.iter) != "ancestor_versions" or st.orelse:
            raise Unsupported("the second loop is not `for v in ancestor_versions:`")
        leaves = {"selected_version is None": "sel_none", "dist": "dist", "closest_distance": "closest", "v.timestamp": "tsv", "selected_version.timestamp": "tssel"}
        n_ops = dict(N_OPS)
        n_ops[ast.Gt] = _Swap("(%s <? %s)")
        n_ops[ast.GtE] = _Swap("(%s <=? %s)")
        stmts = [x for x in st.body if not isinstance(x, ast.Assert)]
        if len(stmts) != 2 or ast.unparse(stmts[0]).replace("curr_commit.hash", "HEADHASH") != "dist = ctx.git.get_distance(HEADHASH, v.commit_hash)" or not isinstance(stmts[1], ast.If):
            raise Unsupported("the second loop's body is not `dist = get_distance(curr, v.commit_hash); if ...`")

        def act(stmts2):
            got = sorted(ast.unparse(x) for x in stmts2)
            if got == ["closest_distance = dist", "selected_version = v"]:
                return "1%N"
            if got == ["selected_version = v"]:
                return "2%N"
            if len(stmts2) == 1 and isinstance(stmts2[0], ast.If):
                return branch(stmts2[0])
            raise Unsupported("a branch of the second loop does something else: %s" % got)

        def branch(i):
            return "(if %s then %s else %s)" % (_bexpr(i.test, leaves, n_ops, suffix="%N"), act(i.body), act(i.orelse) if i.orelse else "0%N")

        return branch(stmts[1])

    out = {}

    def block(stmts, inside_anc=False):
        if not stmts:
            raise Unsupported("a path of the method ends without a return")
        st, rest = stmts[0], stmts[1:]
        src = ast.unparse(st)
        if isinstance(st, ast.Assert):
            return block(rest, inside_anc)
        if isinstance(st, ast.Return):
            v = "None" if st.value is None else flat(st.value)
            if v == LATEST:
                return "0%N"
            if v == "selected_version":
                if not (inside_anc and seen["loop2"] == 1):
                    raise Unsupported("`return selected_version` is not preceded by the closest-version loop")
                return "1%N"
            if v == "max(null_commit_versions, key=lambda v: v.timestamp)":
                return "2%N"
            if v == "None":
                return "3%N"
            raise Unsupported("the method returns something else: %s" % src)
        if isinstance(st, ast.Assign) and len(st.targets) == 1 and isinstance(st.targets[0], ast.Name):
            tgt, val = st.targets[0].id, ast.unparse(st.value)
            if val == LATEST:
                names[tgt] = LATEST
            elif (tgt, val) == ("curr_commit", "ctx.current_commit"):
                pass
            elif (tgt, val) == ("existing_versions", "ctx.version_index.get_all_versions_for_task(self._identifier)"):
                names["existing_versions"] = "ALL"
            elif (tgt, val) in (("ancestor_versions", "[]"), ("null_commit_versions", "[]")):
                if seen["loop1"]:
                    raise Unsupported("a version list is reset after the first loop")
                seen["init"].add(tgt)
            elif (tgt, val) in (("selected_version", "None"), ("closest_distance", "-1")):
                if seen["loop2"]:
                    raise Unsupported("the loop state is reset after the second loop")
                seen["init"].add(tgt)
            else:
                raise Unsupported("assignment outside the supported fragment: %s" % src)
            return block(rest, inside_anc)
        if isinstance(st, ast.For):
            if not seen["loop1"]:
                if seen["init"] != {"ancestor_versions", "null_commit_versions"} or names.get("existing_versions") != "ALL":
                    raise Unsupported("the first loop does not start from two empty lists over all versions of the task")
                out["classify"] = classify_loop(st)
                seen["loop1"] += 1
            elif inside_anc and not seen["loop2"]:
                if not {"selected_version", "closest_distance"} <= seen["init"]:
                    raise Unsupported("the second loop does not start from (None, -1)")
                out["closest"] = closest_loop(st)
                seen["loop2"] += 1
            else:
                raise Unsupported("an unexpected loop: %s" % src.splitlines()[0])
            return block(rest, inside_anc)
        if isinstance(st, ast.If):
            leaves = {"not ctx.uses_git": "(negb uses_git)", "curr_commit is None": "cc_none"}
            if seen["loop1"]:
                leaves = {"len(ancestor_versions)": "n_anc", "len(null_commit_versions)": "n_null", "len(existing_versions)": "n_all"}
            test = _bexpr(st.test, leaves, NAT_OPS)
            is_anc_test = ast.unparse(st.test) == "len(ancestor_versions) > 0"
            if not seen["loop1"] and ast.unparse(st.test) not in leaves:
                raise Unsupported("test before the first loop outside the supported fragment: %s" % ast.unparse(st.test))
            then = block(st.body, inside_anc or is_anc_test)
            other = block(st.orelse, inside_anc) if st.orelse else block(rest, inside_anc)
            return "(if %s then %s else %s)" % (test, then, other)
        raise Unsupported("statement outside the supported fragment: %s" % src)

    top = block(body)
    if seen["loop1"] != 1 or seen["loop2"] != 1:
        raise Unsupported("the two loops were not both found")
    return ("(* conductor/task_types/run.py RunExperiment._retrieve_most_relevant_existing_version.\n"
            "   gen_sel_top: what the method returns -- 0 get_latest_output_version(task), 1 the version selected by the second loop,\n"
            "   2 max(null_commit_versions, key=timestamp), 3 None -- from uses_git, `current_commit is None` and the lengths of the lists the first loop built;\n"
            "   gen_sel_classify: the first loop per version -- 0 appended to null_commit_versions, 1 appended to ancestor_versions, 2 neither;\n"
            "   gen_sel_closest: the second loop per version over its state (selected_version, closest_distance) -- 0 unchanged, 1 both := (v, dist), 2 selected_version := v *)\n"
            "Definition gen_sel_top (uses_git cc_none : bool) (n_anc n_null n_all : nat) : N := %s.\n"
            "Definition gen_sel_classify (commit_none is_anc : bool) : N := %s.\n"
            "Definition gen_sel_closest (sel_none : bool) (dist closest tsv tssel : N) : N := %s.\n" % (top, out["classify"], out["closest"]))


def _find_function(relpath, name):
    tree = ast.parse(open(os.path.join(SRC, relpath), encoding="utf-8").read())
    for node in tree.body:
        if isinstance(node, ast.FunctionDef) and node.name == name:
            return _undecorated(node, name)
    raise Unsupported("%s: no function %s" % (relpath, name))


def validate_args_item():
    """cli/run.py validate_args: which flag combination is rejected, with which error class, in which order"""
    f = _find_function("conductor/cli/run.py", "validate_args")
    body = _body_without_docstring(f)
    env = {"args.this_commit": "this_commit", "args.at_least is not None": "at_least_some", "args.again": "again",
           "ctx.uses_git": "uses_git", "ctx.current_commit is None": "(negb has_commit)", "ctx.current_commit is not None": "has_commit"}

    def cond(node):
        src = ast.unparse(node)
        if src in env:
            return env[src]
        if isinstance(node, ast.UnaryOp) and isinstance(node.op, ast.Not):
            return "(negb %s)" % cond(node.operand)
        if isinstance(node, ast.BoolOp):
            op = {ast.And: " && ", ast.Or: " || "}[type(node.op)]
            return "(" + op.join(cond(v) for v in node.values) + ")"
        raise Unsupported("condition outside the supported fragment: %s" % src)

    def block(stmts):
        if not stmts:
            return "None"
        st, rest = stmts[0], stmts[1:]
        src = ast.unparse(st)
        if isinstance(st, ast.Assign) and len(st.targets) == 1 and isinstance(st.targets[0], ast.Name):
            env[st.targets[0].id] = cond(st.value)
            return block(rest)
        if isinstance(st, ast.If) and not st.orelse and len(st.body) == 1 and isinstance(st.body[0], ast.Raise):
            exc = st.body[0].exc
            if not (isinstance(exc, ast.Call) and isinstance(exc.func, ast.Name) and not exc.args and not exc.keywords and st.body[0].cause is None):
                raise Unsupported("raise outside the supported fragment: %s" % ast.unparse(st.body[0]))
            return "(if %s then Some %s (* %s *) else %s)" % (cond(st.test), coq_str(exc.func.id), exc.func.id, block(rest))
        raise Unsupported("statement outside the supported fragment: %s" % src)

    expr = block(body)
    return ("(* conductor/cli/run.py validate_args: the error class raised, by name *)\n"
            "Definition gen_validate_args (this_commit at_least_some again uses_git has_commit : bool) : option (list N) := %s.\n" % expr)


def _is_logging(st):
    """`logger.debug(...)` and friends as a statement: no effect on the decision being translated"""
    return (isinstance(st, ast.Expr) and isinstance(st.value, ast.Call) and isinstance(st.value.func, ast.Attribute)
            and st.value.func.attr in ("debug", "info", "warning", "error", "exception", "log")
            and isinstance(st.value.func.value, ast.Name) and st.value.func.value.id in ("logger", "logging", "_logger", "log", "LOGGER"))


def finish_item():
    """RunTaskExecutable.finish_execution: the effects in program order -- which record files are written, when the
    non-zero exit status raises, when the version's row is inserted and committed.  Effect codes: 6 a log is finished, 1 args.json,
    2 options.json, 3 raise TaskNonZeroExit, 4 insert_output_version, 5 commit_changes."""
    f = _find_method("conductor/execution/ops/run_task_executable.py", "RunTaskExecutable", "finish_execution")
    body = _body_without_docstring(f)
    leaves = {"self._serialize_args_options": "ser", "not self._args.empty()": "(negb args_empty)", "not self._options.empty()": "(negb opts_empty)",
              "handle.returncode != 0": "rc_nonzero", "self._version_to_record is not None": "has_version"}
    ignore = set()
    calls = [("handle.stdout.finish()", 6), ("handle.stderr.finish()", 6), ("self._args.serialize_json(", 1), ("self._options.serialize_json(", 2), ("ctx.version_index.insert_output_version(", 4), ("ctx.version_index.commit_changes(", 5)]

    def cond(node):
        src = ast.unparse(node)
        if src in leaves:
            return leaves[src]
        raise Unsupported("condition outside the supported fragment: %s" % src)

    def block(stmts):
        """Coq term of type list N for a statement list (everything after a raise on a path is dropped)"""
        if not stmts:
            return "[]"
        st, rest = stmts[0], stmts[1:]
        src = ast.unparse(st)
        if isinstance(st, ast.Assert) or (isinstance(st, ast.Expr) and src in ignore) or _is_logging(st):
            return block(rest)
        if isinstance(st, ast.Expr) and isinstance(st.value, ast.Call):
            for prefix, code in calls:
                if src.startswith(prefix):
                    return "(%d%%N :: %s)" % (code, block(rest))
            raise Unsupported("call outside the supported fragment: %s" % src)
        if isinstance(st, ast.Raise):
            if isinstance(st.exc, ast.Call) and ast.unparse(st.exc.func) == "TaskNonZeroExit":
                return "[3%N]"
            raise Unsupported("raise outside the supported fragment: %s" % src)
        if isinstance(st, ast.Try) and not st.orelse and not st.finalbody and st.handlers \
                and all(ast.unparse(h.type) == "OSError" and len(h.body) == 1 and isinstance(h.body[0], ast.Raise) for h in st.handlers):
            # `try: <writes> except OSError: raise TaskFailed(...)`: the effects are those of the body; a write that fails
            # (the task removed its own output directory) turns the execution into a failed one and is outside the model
            return block(list(st.body) + rest)
        if isinstance(st, ast.If) and not st.orelse and src.startswith("if handle.process is not None:"):
            # the reaped child's Popen object and its pipes are released: bookkeeping on `handle.process` only -- no
            # effect on the logs, the records or the index
            names = {n.id for n in ast.walk(st) if isinstance(n, ast.Name)}
            callsrc = {ast.unparse(n.func) for n in ast.walk(st) if isinstance(n, ast.Call)}
            if names <= {"handle", "pipe"} and callsrc <= {"pipe.close"} and not any(isinstance(n, (ast.Raise, ast.Return)) for n in ast.walk(st)):
                return block(rest)
            raise Unsupported("the release of handle.process does more than closing its pipes: %s" % src)
        if isinstance(st, ast.If) and not st.orelse and src.startswith("if not self._output_path.is_dir():") and len(st.body) == 1 \
                and isinstance(st.body[0], ast.Raise) and "TaskFailed(" in ast.unparse(st.body[0]):
            # the task removed its own output directory: the execution becomes a failed one (nothing is inserted); like a
            # failing write of the record files this is outside the model, whose tasks leave their output directory alone
            return block(rest)
        if isinstance(st, ast.If) and not st.orelse:
            then = block(st.body)
            if then.endswith("[3%N]") and then.count("::") == 0:
                # the branch raises: nothing after the `if` happens on that path
                return "(if %s then [3%%N] else %s)" % (cond(st.test), block(rest))
            return "((if %s then %s else []) ++ %s)" % (cond(st.test), then, block(rest))
        raise Unsupported("statement outside the supported fragment: %s" % src)

    return ("(* conductor/execution/ops/run_task_executable.py RunTaskExecutable.finish_execution: effects in program order *)\n"
            "Definition gen_finish (rc_nonzero ser args_empty opts_empty has_version : bool) : list N := %s.\n" % block(body))


def record_type_item():
    """RunTaskExecutable.start_execution: the record type from record_output and the slot (0 NotRecorded, 1 Teed, 2 OnlyLogged)"""
    f = _find_method("conductor/execution/ops/run_task_executable.py", "RunTaskExecutable", "start_execution")
    target = None
    for st in _walk_stmts(f.body):
        if isinstance(st, ast.If) and ast.unparse(st.test) == "self._record_output":
            target = st
            break
    if target is None:
        raise Unsupported("no `if self._record_output:` in start_execution")
    codes = {"RecordType.NotRecorded": 0, "RecordType.Teed": 1, "RecordType.OnlyLogged": 2}

    def branch(stmts):
        if len(stmts) == 1 and isinstance(stmts[0], ast.Assign) and ast.unparse(stmts[0].targets[0]) == "record_type" and ast.unparse(stmts[0].value) in codes:
            return "%d%%N" % codes[ast.unparse(stmts[0].value)]
        if len(stmts) == 1 and isinstance(stmts[0], ast.If) and ast.unparse(stmts[0].test) in ("slot is None", "slot is not None") and stmts[0].orelse:
            a, b = branch(stmts[0].body), branch(stmts[0].orelse)
            return "(if slot_none then %s else %s)" % ((a, b) if ast.unparse(stmts[0].test) == "slot is None" else (b, a))
        raise Unsupported("record type selection outside the supported fragment: %s" % "; ".join(ast.unparse(x) for x in stmts))

    if not target.orelse:
        raise Unsupported("`if self._record_output:` has no else branch")
    return ("(* conductor/execution/ops/run_task_executable.py start_execution: 0 NotRecorded, 1 Teed, 2 OnlyLogged *)\n"
            "Definition gen_record_type (record_output slot_none : bool) : N := (if record_output then %s else %s).\n" % (branch(target.body), branch(target.orelse)))


def spawn_item():
    """RunTaskExecutable.start_execution: the environment handed to the task and how the process is started.
    Environment values: 0 str(self._output_path), 1 SEPARATOR.join(map(str, self._deps_output_paths)), 2 self._identifier.name,
    3 str(slot).  Actions on the slot branches: 1 set the key to str(slot), 2 pop the key."""
    rel = "conductor/execution/ops/run_task_executable.py"
    f = _find_method(rel, "RunTaskExecutable", "start_execution")
    tree = ast.parse(open(os.path.join(SRC, rel), encoding="utf-8").read())
    from_config = set()
    for node in tree.body:
        if isinstance(node, ast.ImportFrom) and node.module == "conductor.config":
            from_config |= {a.name for a in node.names if a.asname is None}
    values = {"str(self._output_path)": 0, "DEPS_ENV_PATH_SEPARATOR.join(map(str, self._deps_output_paths))": 1, "self._identifier.name": 2}

    def key(node):
        if isinstance(node, ast.Name) and node.id in CONFIG_NAMES and node.id in from_config:
            return "cfg_" + node.id
        raise Unsupported("environment key outside the supported fragment: %s" % ast.unparse(node))

    cands = [st for st in _walk_stmts(f.body) if isinstance(st, ast.Assign) and len(st.targets) == 1 and isinstance(st.targets[0], ast.Name)
             and isinstance(st.value, ast.Dict) and st.value.keys and st.value.keys[0] is None and ast.unparse(st.value.values[0]) == "os.environ"]
    if len(cands) != 1:
        raise Unsupported("the environment is not built by exactly one dict display starting from **os.environ")
    ev = cands[0].targets[0].id          # the name of the local variable (env_vars)
    uses = lambda st: any(isinstance(n, ast.Name) and n.id == ev for n in ast.walk(st))
    env_stmts = [st for st in _walk_stmts(f.body) if not isinstance(st, (ast.Try, ast.If, ast.With, ast.For, ast.While)) and uses(st)]
    ifs = [st for st in _walk_stmts(f.body) if isinstance(st, ast.If) and uses(st)]
    dict_st = cands
    d = dict_st[0].value
    if any(k is None for k in d.keys[1:]):
        raise Unsupported("the environment merges a second mapping")
    overrides = []
    for k, v in zip(d.keys[1:], d.values[1:]):
        src = ast.unparse(v)
        if src not in values:
            raise Unsupported("environment value outside the supported fragment: %s" % src)
        overrides.append("(%s, %d%%N)" % (key(k), values[src]))
    if len(ifs) != 1 or ast.unparse(ifs[0].test) not in ("slot is not None", "slot is None") or not ifs[0].orelse:
        raise Unsupported("env_vars is not adjusted by exactly one `if slot is [not] None: ... else: ...`")

    def actions(stmts):
        out = []
        for st in stmts:
            if isinstance(st, ast.Assign) and len(st.targets) == 1 and isinstance(st.targets[0], ast.Subscript) and ast.unparse(st.targets[0].value) == ev \
                    and ast.unparse(st.value) == "str(slot)":
                out.append("(1%%N, %s)" % key(st.targets[0].slice))
            elif isinstance(st, ast.Expr) and isinstance(st.value, ast.Call) and ast.unparse(st.value.func) == ev + ".pop" and len(st.value.args) == 2 \
                    and ast.unparse(st.value.args[1]) == "None" and not st.value.keywords:
                out.append("(2%%N, %s)" % key(st.value.args[0]))
            else:
                raise Unsupported("statement on env_vars outside the supported fragment: %s" % ast.unparse(st))
        return out

    some, none = actions(ifs[0].body), actions(ifs[0].orelse)
    if ast.unparse(ifs[0].test) == "slot is None":
        some, none = none, some
    # the process
    popens = [st for st in _walk_stmts(f.body) if isinstance(st, ast.Assign) and isinstance(st.value, ast.Call) and ast.unparse(st.value.func) == "subprocess.Popen"]
    if len(popens) != 1:
        raise Unsupported("start_execution does not start exactly one subprocess.Popen")
    call = popens[0].value
    if len(call.args) != 1 or ast.unparse(call.args[0]) != "[self._run]":
        raise Unsupported("Popen's command is not [self._run]")
    kw = {k.arg: k.value for k in call.keywords}
    allowed = {"shell", "cwd", "executable", "stdout", "stderr", "env", "start_new_session"}
    if None in kw or set(kw) - allowed:
        raise Unsupported("Popen keyword outside the supported fragment: %s" % sorted(str(x) for x in set(kw) - allowed))
    for st in env_stmts:
        if st is dict_st[0] or st is popens[0] or any(st in b for b in (ifs[0].body, ifs[0].orelse)):
            continue
        raise Unsupported("another statement uses env_vars: %s" % ast.unparse(st))
    if ast.unparse(kw.get("env", ast.Constant(None))) != ev:
        raise Unsupported("Popen is not given env=%s" % ev)
    exe = kw.get("executable")
    if not (isinstance(exe, ast.Constant) and isinstance(exe.value, str)):
        raise Unsupported("Popen's executable is not a string literal")

    def flag(name):
        v = kw.get(name)
        return "true" if isinstance(v, ast.Constant) and v.value is True else "false"

    # the command line: RunTaskExecutable.__init__
    init = _find_method(rel, "RunTaskExecutable", "__init__")
    runs = [st for st in _walk_stmts(init.body) if isinstance(st, ast.Assign) and ast.unparse(st.targets[0]) == "self._run"]
    run_ok = len(runs) == 1 and ast.unparse(runs[0].value) == "' '.join([run, self._args.serialize_cmdline(), self._options.serialize_cmdline()])"
    others = [st for st in _walk_stmts(f.body) if isinstance(st, ast.Assign) and ast.unparse(st.targets[0]) in ("self._run", "self._working_path", "self._output_path", "self._deps_output_paths")]
    if others:
        raise Unsupported("start_execution reassigns %s" % ast.unparse(others[0].targets[0]))
    return ("(* conductor/execution/ops/run_task_executable.py RunTaskExecutable.start_execution: env_vars = {**os.environ, key: value, ...}\n"
            "   (values: 0 str(self._output_path), 1 DEPS_ENV_PATH_SEPARATOR.join(map(str, self._deps_output_paths)), 2 self._identifier.name),\n"
            "   then with / without a slot (actions: 1 env_vars[key] = str(slot), 2 env_vars.pop(key, None)); subprocess.Popen([self._run], ...) *)\n"
            "Definition gen_env_overrides : list (list N * N) := [%s].\n"
            "Definition gen_env_slot_some : list (N * list N) := [%s].\n"
            "Definition gen_env_slot_none : list (N * list N) := [%s].\n"
            "Definition gen_popen_shell : bool := %s.\n"
            "Definition gen_popen_executable : list N := %s. (* %s *)\n"
            "Definition gen_popen_cwd_is_working_path : bool := %s.\n"
            "Definition gen_popen_new_session : bool := %s.\n"
            "Definition gen_run_is_run_args_options_joined_by_space : bool := %s.\n"
            % ("; ".join(overrides), "; ".join(some), "; ".join(none), flag("shell"), coq_str(exe.value), _cmt(repr(exe.value)),
               "true" if ast.unparse(kw.get("cwd", ast.Constant(None))) == "self._working_path" else "false", flag("start_new_session"),
               "true" if run_ok else "false"))


def abort_item():
    """errors/signal.py (the handler and abort_deferred) and the launch block of Executor._launch_ops_if_able.
    Instruction codes of the block, in program order: 0 enter the deferred region, 1 a statement that neither creates nor
    registers a process, 2 `... = next_op.start_execution(...)` (the child comes into existence), 3 `self._inflight_ops.add_op(handle,
    next_op)`, 4 leave the region (raise if an abort is pending)."""
    sig = ast.parse(open(os.path.join(SRC, "conductor/errors/signal.py"), encoding="utf-8").read())
    fns = {n.name: n for n in sig.body if isinstance(n, ast.FunctionDef)}
    if "_terminate_handler" not in fns or "abort_deferred" not in fns:
        raise Unsupported("errors/signal.py: no _terminate_handler / abort_deferred")
    regs = [ast.unparse(st) for st in _body_without_docstring(fns.get("register_signal_handlers", ast.parse("def f(): pass").body[0]))]
    if sorted(regs) != sorted(["signal.signal(signal.SIGINT, _terminate_handler)", "signal.signal(signal.SIGTERM, _terminate_handler)"]):
        raise Unsupported("register_signal_handlers does not install _terminate_handler for exactly SIGINT and SIGTERM: %s" % regs)
    h = [st for st in _body_without_docstring(fns["_terminate_handler"]) if not isinstance(st, ast.Global)]
    h_ok = (len(h) == 2 and isinstance(h[0], ast.If) and ast.unparse(h[0].test) == "_defer_depth > 0" and not h[0].orelse
            and [ast.unparse(x) for x in h[0].body] == ["_abort_pending = True", "return"] and ast.unparse(h[1]) == "raise ConductorAbort()")
    if not h_ok:
        raise Unsupported("_terminate_handler outside the supported fragment: %s" % "; ".join(ast.unparse(x) for x in h))
    cm = fns["abort_deferred"]
    if [ast.unparse(d) for d in cm.decorator_list] != ["contextlib.contextmanager"]:
        raise Unsupported("abort_deferred is not a contextlib.contextmanager")
    b = [st for st in _body_without_docstring(cm) if not isinstance(st, ast.Global)]
    cm_ok = (len(b) == 2 and ast.unparse(b[0]) == "_defer_depth += 1" and isinstance(b[1], ast.Try) and not b[1].handlers and not b[1].orelse
             and [ast.unparse(x) for x in b[1].body] == ["yield"] and len(b[1].finalbody) == 2 and ast.unparse(b[1].finalbody[0]) == "_defer_depth -= 1"
             and isinstance(b[1].finalbody[1], ast.If) and ast.unparse(b[1].finalbody[1].test) == "_defer_depth == 0 and _abort_pending" and not b[1].finalbody[1].orelse
             and [ast.unparse(x) for x in b[1].finalbody[1].body] == ["_abort_pending = False", "raise ConductorAbort()"])
    if not cm_ok:
        raise Unsupported("abort_deferred outside the supported fragment")
    # the globals are touched nowhere else in the package
    for dp, _dn, fnames in os.walk(os.path.join(SRC, "conductor")):
        for fn in fnames:
            if fn.endswith(".py") and os.path.join(dp, fn) != os.path.join(SRC, "conductor/errors/signal.py"):
                text = open(os.path.join(dp, fn), encoding="utf-8").read()
                if "_defer_depth" in text or "_abort_pending" in text:
                    raise Unsupported("%s touches the deferral state of errors/signal.py" % fn)
    # the launch block
    f = _find_method("conductor/execution/executor.py", "Executor", "_launch_ops_if_able")
    withs = [st for st in _walk_stmts(f.body) if isinstance(st, ast.With)]
    starts = [st for st in _walk_stmts(f.body) if "start_execution(" in ast.unparse(st) and not isinstance(st, (ast.While, ast.If, ast.Try, ast.With, ast.For))]
    if len(withs) != 1 or len(withs[0].items) != 1 or ast.unparse(withs[0].items[0].context_expr) != "abort_deferred()" or withs[0].items[0].optional_vars is not None:
        raise Unsupported("_launch_ops_if_able has no single `with abort_deferred():` block")
    codes = []
    for st in withs[0].body:
        src = ast.unparse(st)
        if isinstance(st, ast.Assign) and isinstance(st.value, ast.Call) and ast.unparse(st.value.func) == "next_op.start_execution":
            codes.append(2)
        elif src == "self._inflight_ops.add_op(handle, next_op)":
            codes.append(3)
        elif "start_execution" in src or "add_op" in src or isinstance(st, (ast.With, ast.Try, ast.While, ast.For, ast.Raise, ast.Return)) or "abort_deferred" in src:
            raise Unsupported("statement of the launch block outside the supported fragment: %s" % src)
        else:
            codes.append(1)
    if len(starts) != 1 or starts[0] not in withs[0].body:
        raise Unsupported("start_execution is called outside the deferred block")
    # run_plan: the abort handler terminates every registered process
    rp = _find_method("conductor/execution/executor.py", "Executor", "run_plan")
    handlers = [h_ for st in _walk_stmts(rp.body) if isinstance(st, ast.Try) for h_ in st.handlers if h_.type is not None and ast.unparse(h_.type) == "ConductorAbort"]
    term = len(handlers) == 1 and handlers[0].body and ast.unparse(handlers[0].body[0]) == "self._inflight_ops.terminate_processes()" \
        and isinstance(handlers[0].body[-1], ast.Raise) and handlers[0].body[-1].exc is None
    return ("(* conductor/errors/signal.py: _terminate_handler notes the signal while _defer_depth > 0 and raises ConductorAbort otherwise; abort_deferred raises\n"
            "   the noted abort when the outermost region is left.  conductor/execution/executor.py _launch_ops_if_able: the statements of the\n"
            "   `with abort_deferred():` block (0 enter, 1 other, 2 start_execution, 3 add_op, 4 leave); run_plan's `except ConductorAbort` begins with\n"
            "   terminate_processes() and re-raises. *)\n"
            "Definition gen_launch_block : list N := [%s].\n"
            "Definition gen_abort_handler_terminates_registered : bool := %s.\n"
            % ("; ".join("%d%%N" % c for c in [0] + codes + [4]), "true" if term else "false"))


def tee_item():
    """utils/tee.py TeeProcessor._tee_pipe_run: what ONE iteration of the copier loop does, as a function of whether the read
    returned no data, whether `stream_ok` still holds and whether the write to Conductor's own stream succeeds.  Codes: 0 break,
    1 file.write(data), 2 stream.buffer.write(data) + stream.flush() succeeded, 3 the write raised: stream_ok = False."""
    f = _find_method("conductor/utils/tee.py", "TeeProcessor", "_tee_pipe_run")
    loops = [st for st in _walk_stmts(f.body) if isinstance(st, ast.While)]
    if len(loops) != 1 or ast.unparse(loops[0].test) != "True" or loops[0].orelse:
        raise Unsupported("_tee_pipe_run has no single `while True:` loop")
    withs = [st for st in _body_without_docstring(f) if isinstance(st, ast.With)]
    if len(withs) != 1 or ast.unparse(withs[0].items[0].context_expr) != "file" or loops[0] not in withs[0].body:
        raise Unsupported("the copier loop does not run inside `with file:`")

    def block(stmts):
        if not stmts:
            return "[]"           # the end of the body: next iteration
        st, rest = stmts[0], stmts[1:]
        src = ast.unparse(st)
        if isinstance(st, ast.Assign) and src.startswith("data = pipe.read1("):
            return block(rest)
        if isinstance(st, ast.If) and ast.unparse(st.test) == "len(data) == 0" and not st.orelse and len(st.body) == 1 and isinstance(st.body[0], ast.Break):
            return "(if data_empty then [0%%N] else %s)" % block(rest)
        if isinstance(st, ast.Expr) and src == "file.write(data)":
            return "(1%%N :: %s)" % block(rest)
        if isinstance(st, ast.If) and ast.unparse(st.test) == "not stream_ok" and not st.orelse and len(st.body) == 1 and isinstance(st.body[0], ast.Continue):
            return "(if negb stream_ok then [] else %s)" % block(rest)
        if isinstance(st, ast.Try) and not st.orelse and not st.finalbody and len(st.handlers) == 1 \
                and [ast.unparse(x) for x in st.body] == ["stream.buffer.write(data)", "stream.flush()"] \
                and ast.unparse(st.handlers[0].type) in ("(OSError, ValueError)", "OSError") \
                and [ast.unparse(x) for x in st.handlers[0].body] == ["stream_ok = False"]:
            return "((if write_ok then [2%%N] else [3%%N]) ++ %s)" % block(rest)
        raise Unsupported("statement of the copier loop outside the supported fragment: %s" % src)

    body = block(list(loops[0].body))
    return ("(* conductor/utils/tee.py TeeProcessor._tee_pipe_run, one iteration of `while True:` (inside `with file:`): 0 break, 1 file.write(data),\n"
            "   2 the chunk went to Conductor's own stream, 3 that write raised and stream_ok is cleared *)\n"
            "Definition gen_tee_iteration (data_empty stream_ok write_ok : bool) : list N := %s.\n" % body)


def combine_item():
    """CombineOutputs.start_execution: what happens to ONE dependency, as a function of what the file system says
    about its directory and about the entry found under its name.  Result codes: 0 skipped (continue), 1 the entry
    is unlinked and the link made, 2 CombineOutputFileConflict, 3 the link is made (nothing was there)."""
    f = _find_method("conductor/execution/ops/combine_outputs.py", "CombineOutputs", "start_execution")
    loop = None
    top = []
    for st in _body_without_docstring(f):
        if isinstance(st, ast.Try) and not st.orelse and not st.finalbody and st.handlers \
                and all(ast.unparse(h.type) == "OSError" and len(h.body) == 1 and isinstance(h.body[0], ast.Raise) and "TaskFailed(" in ast.unparse(h.body[0]) for h in st.handlers):
            # `try: mkdir; for ...: ... except OSError: raise TaskFailed(...)`: a file system error makes the combine task a
            # failed task; the decisions are those of the body
            top += list(st.body)
        else:
            top.append(st)
    for st in top:
        if isinstance(st, ast.For) and ast.unparse(st.iter) == "self._deps_output_paths":
            loop = st
    if loop is None or loop.orelse:
        raise Unsupported("no `for ... in self._deps_output_paths` loop in start_execution")
    leaves = {"dep_dir.is_dir()": "is_dir", "any((True for _ in dep_dir.iterdir()))": "nonempty", "copy_into.is_symlink()": "is_link",
              "_is_conductor_link(copy_into, dep_id, ctx)": "own", "copy_into.exists()": "exists_"}
    ignore_targets = {"copy_into", "relative_to_target"}

    def cond(node):
        src = ast.unparse(node)
        if src in leaves:
            return leaves[src]
        if isinstance(node, ast.UnaryOp) and isinstance(node.op, ast.Not):
            return "(negb %s)" % cond(node.operand)
        if isinstance(node, ast.BoolOp):
            op = {ast.And: " && ", ast.Or: " || "}[type(node.op)]
            return "(" + op.join(cond(v) for v in node.values) + ")"
        raise Unsupported("condition outside the supported fragment: %s" % src)

    def block(stmts, unlinked):
        if not stmts:
            raise Unsupported("a path through the loop body ends without continue / raise / symlink_to")
        st, rest = stmts[0], stmts[1:]
        src = ast.unparse(st)
        if _is_logging(st):
            return block(rest, unlinked)
        if isinstance(st, ast.Continue):
            return "0%N"
        if isinstance(st, ast.Raise):
            if isinstance(st.exc, ast.Call) and ast.unparse(st.exc.func) == "CombineOutputFileConflict":
                return "2%N"
            raise Unsupported("raise outside the supported fragment: %s" % src)
        if isinstance(st, ast.Assign) and len(st.targets) == 1 and isinstance(st.targets[0], ast.Name) and st.targets[0].id in ignore_targets:
            return block(rest, unlinked)
        if isinstance(st, ast.Expr) and src == "copy_into.unlink()":
            return block(rest, True)
        if isinstance(st, ast.Expr) and src == "copy_into.symlink_to(relative_to_target)":
            if rest:
                raise Unsupported("statements after symlink_to in the loop body")
            return "1%N" if unlinked else "3%N"
        if isinstance(st, ast.If):
            return "(if %s then %s else %s)" % (cond(st.test), block(list(st.body) + rest, unlinked), block(list(st.orelse) + rest, unlinked))
        raise Unsupported("statement outside the supported fragment: %s" % src)

    return ("(* conductor/execution/ops/combine_outputs.py CombineOutputs.start_execution, one iteration: 0 continue, 1 unlink + link, 2 conflict, 3 link *)\n"
            "Definition gen_combine_decision (is_dir nonempty is_link own exists_ : bool) : N := %s.\n" % block(list(loop.body), False))


def gc_item():
    """cli/gc.py main: what happens to ONE entry of the directory being scanned.  Result codes: 0 nothing (continue),
    1 pushed on the stack (explored later), 2 appended to to_delete."""
    f = _find_function("conductor/cli/gc.py", "main")
    loop = None
    for st in _walk_stmts(f.body):
        if isinstance(st, ast.For) and ast.unparse(st.iter) == "curr_path.iterdir()":
            loop = st
    if loop is None or loop.orelse:
        raise Unsupported("no `for inner in curr_path.iterdir()` loop in gc.main")
    leaves = {"inner.is_symlink()": "(negb real_dir)", "not inner.is_dir()": "(negb real_dir)", "exp_match is None": "(negb exp_match)",
              "_REGULAR_TASK_REGEX.match(inner.name) is None": "(negb reg_match)", "(task_identifier, timestamp) not in all_versions": "(negb recorded)"}
    ignore_targets = {"exp_match": "_EXPERIMENT_TASK_REGEX.match(inner.name)", "task_name": 'exp_match.group("name")' , "timestamp": 'int(exp_match.group("timestamp"))',
                      "task_path": "inner.parent.relative_to(output_path)", "task_identifier": "TaskIdentifier(task_path, task_name)"}

    def cond(node):
        src = ast.unparse(node)
        if src in leaves:
            return leaves[src]
        if isinstance(node, ast.BoolOp) and isinstance(node.op, ast.Or) and all(ast.unparse(v) in leaves for v in node.values):
            # `inner.is_symlink() or not inner.is_dir()`: not a directory of its own (Path.is_dir follows links)
            vals = {leaves[ast.unparse(v)] for v in node.values}
            if vals == {"(negb real_dir)"}:
                return "(negb real_dir)"
        raise Unsupported("condition outside the supported fragment: %s" % src)

    def block(stmts, action):
        if not stmts:
            return action
        st, rest = stmts[0], stmts[1:]
        src = ast.unparse(st)
        if _is_logging(st):
            return block(rest, action)
        if isinstance(st, ast.Continue):
            return action
        if isinstance(st, ast.Assign) and len(st.targets) == 1 and isinstance(st.targets[0], ast.Name) and st.targets[0].id in ignore_targets:
            want = ignore_targets[st.targets[0].id].replace('"', "'")
            if ast.unparse(st.value) != want:
                raise Unsupported("`%s` is not computed as `%s`" % (st.targets[0].id, want))
            return block(rest, action)
        if isinstance(st, ast.Expr) and src == "stack.append(inner)":
            return block(rest, "1%N")
        if isinstance(st, ast.Expr) and src == "to_delete.append(inner)":
            return block(rest, "2%N")
        if isinstance(st, ast.If):
            return "(if %s then %s else %s)" % (cond(st.test), block(list(st.body) + rest, action), block(list(st.orelse) + rest, action))
        raise Unsupported("statement outside the supported fragment: %s" % src)

    return ("(* conductor/cli/gc.py main, one directory entry: 0 continue, 1 explore later, 2 delete *)\n"
            "Definition gen_gc_decision (real_dir exp_match reg_match recorded : bool) : N := %s.\n" % block(list(loop.body), "0%N"))


def restore_item():
    """cli/restore.py main: the ORDER of the steps of the try block (and of its handlers).  Step codes: 1 rmtree(staging),
    2 mkdir(staging), 3 extract_archive, 4 test that the archive's index file exists, 5 load it, 6 copy_entries_to
    (the row inserts), 7 get_all_versions; in the loop 8 test that the staged directory exists, 9 copytree, 10 test
    that the destination exists; 11 commit_changes.  Handler: 12 rollback_changes; finally: 13 rmtree(staging)."""
    f = _find_function("conductor/cli/restore.py", "main")
    tr = None
    for st in f.body:
        if isinstance(st, ast.Try):
            tr = st
    if tr is None:
        raise Unsupported("no try block in restore.main")
    calls = [("shutil.rmtree(staging_path", 1), ("staging_path.mkdir(", 2), ("extract_archive(archive_file, staging_path)", 3),
             ("archive_version_index = VersionIndex.create_or_load(", 5), ("archive_version_index.copy_entries_to(", 6),
             ("dest_task_path.parent.mkdir(", None), ("shutil.copytree(src_task_path, dest_task_path", 9), ("ctx.version_index.commit_changes()", 11),
             ("ctx.version_index.rollback_changes()", 12), ("del archive_version_index", None)]
    tests = {"not archive_version_index_path.is_file()": 4, "not src_task_path.is_dir()": 8, "not dest_task_path.is_dir()": 10}
    plain_assign = {"archive_version_index", "staging_path", "archive_version_index_path", "src_task_path", "dest_task_path"}

    def seq(stmts):
        """(codes before the loop, codes of the loop body, codes after the loop)"""
        pre, body, post, seen_loop = [], [], [], False
        for st in stmts:
            src = ast.unparse(st)
            cur = post if seen_loop else pre
            if isinstance(st, ast.For):
                if seen_loop or ast.unparse(st.iter) != "archive_version_index.get_all_versions()" or st.orelse:
                    raise Unsupported("loop outside the supported fragment: %s" % src.splitlines()[0])
                pre.append(7)
                b_pre, b_body, b_post = seq(st.body)
                if b_body or b_post:
                    raise Unsupported("nested loop in restore.main")
                body = b_pre
                seen_loop = True
                continue
            if isinstance(st, ast.If) and not st.orelse and ast.unparse(st.test) in tests and len(st.body) == 1 and isinstance(st.body[0], ast.Raise):
                cur.append(tests[ast.unparse(st.test)])
                continue
            if isinstance(st, ast.Try) and len(st.body) == 1 and not st.finalbody and not st.orelse and all(isinstance(h.body[-1], ast.Raise) for h in st.handlers):
                a, b, c = seq(st.body)
                if b or c:
                    raise Unsupported("loop inside an inner try of restore.main")
                cur.extend(a)
                continue
            matched = False
            for prefix, code in calls:
                if src.startswith(prefix):
                    if code is not None:
                        cur.append(code)
                    matched = True
                    break
            if matched:
                continue
            if isinstance(st, ast.Assign) and len(st.targets) == 1 and isinstance(st.targets[0], ast.Name) and st.targets[0].id in plain_assign \
                    and not any(isinstance(n, ast.Call) and ast.unparse(n.func) not in ("pathlib.Path", "f.task_output_dir") for n in ast.walk(st.value)):
                continue
            if isinstance(st, ast.Raise) or _is_logging(st):
                continue
            raise Unsupported("statement outside the supported fragment: %s" % src.splitlines()[0])
        return pre, body, post

    pre, body, post = seq(tr.body)
    if len(tr.handlers) != 1 or tr.handlers[0].type is not None:
        raise Unsupported("restore.main: expected one bare `except:`")
    h_pre, h_b, h_post = seq(tr.handlers[0].body)
    f_pre, f_b, f_post = seq(tr.finalbody)
    if h_b or h_post or f_b or f_post:
        raise Unsupported("loop in a handler of restore.main")
    lst = lambda l: "[" + "; ".join("%d%%N" % x for x in l) + "]"  # noqa: E731
    return ("(* conductor/cli/restore.py main: the order of the steps (codes in harness/gen_generated.py restore_item) *)\n"
            "Definition gen_restore_before_loop : list N := %s.\nDefinition gen_restore_loop_body : list N := %s.\n"
            "Definition gen_restore_after_loop : list N := %s.\nDefinition gen_restore_on_error : list N := %s.\nDefinition gen_restore_finally : list N := %s.\n"
            % (lst(pre), lst(body), lst(post), lst(h_pre), lst(f_pre)))


def archive_item():
    """cli/archive.py: (a) handle_output_path as a decision over what the file system says about `-o` -- 0 a generated
    name in cond-out, 1 a generated name in the given directory, 2 the given path, 3 raise OutputFileExists, 4 raise
    OutputPathDoesNotExist; (b) main as the ORDER of its steps -- 1 handle_output_path, 2 compute_tasks_to_archive,
    3 the empty-closure test; in the try block 4 unlink(archive index), 5 create_or_load, 6 copy_entries_to, 7 the
    nothing-copied test, 8 commit_changes, 9 create_archive (the only writer of the output file), 10 print; handler:
    11 unlink(output file), then re-raise; finally: 4; (c) create_archive must be `tar czf <output>` + wait + exit
    status test and raise nothing but CreateArchiveFailed."""
    # ---- (a)
    f = _find_function("conductor/cli/archive.py", "handle_output_path")
    # `output_path` is bound to: GEN (cond-out/<generated name>), GIVEN (the -o argument), GENDIR (<the -o directory>/<generated name>)
    common_leaves = {"raw_output_path is None": "(negb given)"}
    given_leaves = {"output_path.exists()": "exists_", "output_path.is_dir()": "is_dir", "output_path.parent.exists()": "parent_exists", "output_path.parent.is_dir()": "parent_is_dir"}
    gen_leaves = {"output_path.exists()": "gen_exists"}

    def cond(node, bound):
        src = ast.unparse(node)
        leaves = dict(common_leaves, **(given_leaves if bound == "GIVEN" else gen_leaves if bound in ("GEN", "GENDIR") else {}))
        if src in leaves:
            return leaves[src]
        if isinstance(node, ast.UnaryOp) and isinstance(node.op, ast.Not):
            return "(negb %s)" % cond(node.operand, bound)
        if isinstance(node, ast.BoolOp):
            op = {ast.And: " && ", ast.Or: " || "}[type(node.op)]
            return "(" + op.join(cond(v, bound) for v in node.values) + ")"
        raise Unsupported("handle_output_path: condition outside the supported fragment: %s" % src)

    def block(stmts, bound):
        if not stmts:
            raise Unsupported("a path of handle_output_path ends without a return")
        st, rest = stmts[0], stmts[1:]
        src = ast.unparse(st)
        if isinstance(st, ast.Assign) and len(st.targets) == 1 and ast.unparse(st.targets[0]) == "output_path":
            val = ast.unparse(st.value)
            if val == "pathlib.Path(ctx.output_path, generate_archive_name())" and bound is None:
                return block(rest, "GEN")
            if val == "pathlib.Path(raw_output_path)" and bound is None:
                return block(rest, "GIVEN")
            if val == "output_path / generate_archive_name()" and bound == "GIVEN":
                return block(rest, "GENDIR")
            raise Unsupported("handle_output_path: output_path = %s" % val)
        if isinstance(st, ast.Return):
            val = ast.unparse(st.value)
            if val == "output_path" and bound == "GEN":
                return "0%N"
            if (val == "output_path / generate_archive_name()" and bound == "GIVEN") or (val == "output_path" and bound == "GENDIR"):
                return "1%N"
            if val == "output_path" and bound == "GIVEN":
                return "2%N"
            raise Unsupported("handle_output_path returns %s" % val)
        if isinstance(st, ast.Raise):
            val = ast.unparse(st.exc)
            if val == "OutputFileExists()":
                return "3%N"
            if val == "OutputPathDoesNotExist()":
                return "4%N"
            raise Unsupported("handle_output_path raises %s" % val)
        if isinstance(st, ast.If):
            if bound is None and ast.unparse(st.test) != "raw_output_path is None":
                raise Unsupported("handle_output_path tests the path before it is bound")
            then = block(list(st.body) + rest, bound)           # a branch that does not return falls through to what follows
            other = block(list(st.orelse) + rest, bound)
            return "(if %s then %s else %s)" % (cond(st.test, bound), then, other)
        raise Unsupported("handle_output_path: statement outside the supported fragment: %s" % src)

    if getattr(f, "decorator_list", None):
        raise Unsupported("handle_output_path is decorated")
    decision = block(_body_without_docstring(f), None)
    # ---- (b)
    m = _find_function("conductor/cli/archive.py", "main")
    calls = [("ctx = Context.from_cwd()", None), ("output_archive_path = handle_output_path(ctx, args.output)", 1),
             ("tasks_to_archive = compute_tasks_to_archive(ctx, args.task_identifier)", 2),
             ("archive_index_path = pathlib.Path(ctx.output_path, ARCHIVE_VERSION_INDEX)", None), ("archive_index_path.unlink(missing_ok=True)", 4),
             ("archive_index = VersionIndex.create_or_load(archive_index_path)", 5), ("total_entry_count = ctx.version_index.copy_entries_to(", 6),
             ("archive_index.commit_changes()", 8), ("create_archive(ctx, archive_index, output_archive_path, archive_index_path)", 9),
             ("print(", 10), ("output_archive_path.unlink(missing_ok=True)", 11)]
    tests = {"tasks_to_archive is not None and len(tasks_to_archive) == 0": 3, "total_entry_count == 0": 7}

    def seq(stmts):
        out = []
        for st in stmts:
            src = ast.unparse(st)
            if isinstance(st, ast.If) and not st.orelse and ast.unparse(st.test) in tests and len(st.body) == 1 and ast.unparse(st.body[0]) == "raise NoTaskOutputsToArchive()":
                out.append(tests[ast.unparse(st.test)])
                continue
            if isinstance(st, ast.Try) and not st.finalbody and not st.orelse and len(st.body) == 1 and len(st.handlers) == 1 and len(st.handlers[0].body) == 1 \
                    and ast.unparse(st.body[0]) == "relative_output_path = output_archive_path.relative_to(pathlib.Path.cwd())" \
                    and ast.unparse(st.handlers[0].body[0]) == "relative_output_path = output_archive_path":
                continue        # how the path is rendered for the message: no effect
            for prefix, code in calls:
                if src.startswith(prefix):
                    if code is not None:
                        out.append(code)
                    break
            else:
                if isinstance(st, ast.Raise) and st.exc is None:
                    out.append(12)
                    continue
                if _is_logging(st):
                    continue
                raise Unsupported("archive.main: statement outside the supported fragment: %s" % src.splitlines()[0])
        return out

    body = list(m.body)
    tries = [k for k, st in enumerate(body) if isinstance(st, ast.Try)]
    if len(tries) != 1 or tries[0] != len(body) - 1:
        raise Unsupported("archive.main does not end with its one try block")
    tr = body[-1]
    before = seq(body[:-1])
    if len(tr.handlers) != 1 or tr.handlers[0].type is not None or tr.orelse:
        raise Unsupported("archive.main: expected one bare `except:`")
    in_try, on_error, fin = seq(tr.body), seq(tr.handlers[0].body), seq(tr.finalbody)
    if not on_error or on_error[-1] != 12:
        raise Unsupported("archive.main: the handler does not re-raise")
    # the output path may be touched nowhere else in main
    uses = [ast.unparse(n) for st in body for n in ast.walk(st) if isinstance(n, ast.stmt) and not isinstance(n, (ast.Try, ast.If)) and "output_archive_path" in ast.unparse(n)]
    allowed = ("output_archive_path = handle_output_path(", "create_archive(ctx, archive_index, output_archive_path,", "relative_output_path = output_archive_path",
               "output_archive_path.unlink(missing_ok=True)")
    for u in uses:
        if not u.startswith(allowed):
            raise Unsupported("archive.main uses the output path in an unexpected statement: %s" % u.splitlines()[0])
    # ---- (c)
    c = _find_function("conductor/cli/archive.py", "create_archive")
    cb = _body_without_docstring(c)
    if len(cb) != 2 or not (isinstance(cb[0], ast.Assign) and ast.unparse(cb[0].targets[0]) == "output_dirs_str" and isinstance(cb[0].value, ast.ListComp)) or not isinstance(cb[1], ast.Try):
        raise Unsupported("create_archive is not `output_dirs_str = [...]; try: ...`")
    t = cb[1]
    if t.finalbody or t.orelse or len(t.handlers) != 1 or ast.unparse(t.handlers[0].type) != "OSError" or len(t.body) != 3:
        raise Unsupported("create_archive: the try block has another shape")
    popen, wait, test = t.body
    want_popen = ("process = subprocess.Popen(['tar', 'czf', str(output_archive_path.absolute()), '-C', str(ctx.output_path), '--', "
                  "str(archive_index_path.relative_to(ctx.output_path)), *output_dirs_str], shell=False)")
    if ast.unparse(popen) != want_popen:
        raise Unsupported("create_archive does not run exactly `tar czf <output> -C <cond-out> -- <index> <version directories>`: %s" % ast.unparse(popen)[:160])
    want_dirs = "output_dirs_str = [str(pathlib.Path(task_id.path, f.task_output_dir(task_id, version))) for (task_id, version) in archive_index.get_all_versions()]"
    if ast.unparse(cb[0]) not in (want_dirs, want_dirs.replace("for (task_id, version) in", "for task_id, version in")):
        raise Unsupported("create_archive: the member list is not one directory per row of the archive index: %s" % ast.unparse(cb[0])[:160])
    if ast.unparse(wait) != "process.wait()" or not (isinstance(test, ast.If) and ast.unparse(test.test) == "process.returncode != 0" and not test.orelse):
        raise Unsupported("create_archive does not wait for tar and test its exit status")
    raises = [ast.unparse(n.exc) for n in ast.walk(c) if isinstance(n, ast.Raise) and n.exc is not None]
    if not raises or not all(r.startswith("CreateArchiveFailed()") for r in raises):
        raise Unsupported("create_archive raises %r" % raises)
    if any("output_archive_path" in ast.unparse(n) for st in (cb[0], wait, test) for n in [st]) or "output_archive_path" in ast.unparse(t.handlers[0]):
        raise Unsupported("create_archive touches the output path outside the tar command")
    lst = lambda l: "[" + "; ".join("%d%%N" % x for x in l) + "]"  # noqa: E731
    return ("(* conductor/cli/archive.py handle_output_path / main / create_archive (codes in harness/gen_generated.py archive_item) *)\n"
            "Definition gen_archive_output_decision (given exists_ is_dir parent_exists parent_is_dir gen_exists : bool) : N := %s.\n"
            "Definition gen_archive_before_try : list N := %s.\nDefinition gen_archive_try : list N := %s.\n"
            "Definition gen_archive_on_error : list N := %s.\nDefinition gen_archive_finally : list N := %s.\n"
            "Definition gen_archive_tar_is_the_only_writer : bool := true.\n"
            % (decision, lst(before), lst(in_try), lst(on_error), lst(fin)))


def deps_paths_item():
    """TaskType.get_deps_output_paths: the list handed to COND_DEPS -- one loop over `self.deps` in order, the dependency's
    output path looked up through the task index, skipped only when it is None, appended otherwise (no other filter, no
    de-duplication, no sorting).  gen_deps_paths_step: 0 = skipped, 1 = appended at the end."""
    f = _find_method("conductor/task_types/base.py", "TaskType", "get_deps_output_paths")
    body = _body_without_docstring(f)
    if len(body) != 3:
        raise Unsupported("get_deps_output_paths has %d statements" % len(body))
    init, loop, ret = body
    if not (isinstance(init, ast.Assign) and ast.unparse(init) == "deps_output_paths = []"):
        raise Unsupported("get_deps_output_paths does not start from an empty list: %s" % ast.unparse(init))
    if not (isinstance(ret, ast.Return) and ast.unparse(ret.value) == "deps_output_paths"):
        raise Unsupported("get_deps_output_paths returns %s" % ast.unparse(ret))
    if not (isinstance(loop, ast.For) and ast.unparse(loop.target) == "dep_identifier" and ast.unparse(loop.iter) == "self.deps" and not loop.orelse):
        raise Unsupported("get_deps_output_paths does not loop over self.deps")
    lb = list(loop.body)
    if not lb or ast.unparse(lb[0]) != "path = ctx.task_index.get_task(dep_identifier).get_output_path(ctx)":
        raise Unsupported("the dependency's path is not get_task(dep).get_output_path(ctx)")

    def block(stmts):
        if not stmts:
            return "0%N"       # the iteration ends without appending
        st, rest = stmts[0], stmts[1:]
        src = ast.unparse(st)
        if isinstance(st, ast.Continue):
            return "0%N"
        if src == "deps_output_paths.append(path)":
            if rest:
                raise Unsupported("statements after the append: %s" % ast.unparse(rest[0]))
            return "1%N"
        if isinstance(st, ast.If):
            tests = {"path is None": "path_none", "path is not None": "(negb path_none)"}
            t = ast.unparse(st.test)
            if t not in tests:
                raise Unsupported("get_deps_output_paths tests %s" % t)
            return "(if %s then %s else %s)" % (tests[t], block(list(st.body) + rest), block(list(st.orelse) + rest))
        raise Unsupported("get_deps_output_paths: statement outside the supported fragment: %s" % src)

    return ("(* conductor/task_types/base.py TaskType.get_deps_output_paths: per dependency of self.deps, in order *)\n"
            "Definition gen_deps_paths_step (path_none : bool) : N := %s.\n" % block(lb[1:]))


def copy_item():
    """VersionIndex.copy_entries_to: which query feeds bulk_load for (tasks is None, latest_only) -- 0 all_entries,
    1 all_entries_latest (whole table, ONE bulk_load whose count is returned), 2 all_entries_for_task, 3
    latest_entry_for_task (one query and one bulk_load PER element of `tasks`, in order, the counts summed) -- and the
    normalised text of the four SQL queries as numbers-free shape flags (a query that reads differently is refused)."""
    f = _find_method("conductor/execution/version_index.py", "VersionIndex", "copy_entries_to")
    body = _body_without_docstring(f)
    if not body or ast.unparse(body[0]) != "cursor = self._conn.cursor()":
        raise Unsupported("copy_entries_to does not start with one cursor")
    body = body[1:]
    QUERY = {"cursor.execute(q.all_entries)": 0, "cursor.execute(q.all_entries_latest)": 1,
             "cursor.execute(q.all_entries_for_task, (str(task_id),))": 2, "cursor.execute(q.latest_entry_for_task, (str(task_id),))": 3}

    def pick(stmts, allowed):
        """an if/else on latest_only choosing ONE execute -> Coq text over `latest`"""
        if len(stmts) != 1:
            raise Unsupported("copy_entries_to: expected one query choice, got %d statements" % len(stmts))
        st = stmts[0]
        src = ast.unparse(st)
        if src in QUERY and QUERY[src] in allowed:
            return "%d%%N" % QUERY[src]
        if isinstance(st, ast.If) and ast.unparse(st.test) in ("latest_only", "not latest_only") and st.orelse:
            a, b = pick(st.body, allowed), pick(st.orelse, allowed)
            if ast.unparse(st.test) == "not latest_only":
                a, b = b, a
            return "(if latest then %s else %s)" % (a, b)
        raise Unsupported("copy_entries_to: statement outside the supported fragment: %s" % src.splitlines()[0])

    if len(body) != 4:
        raise Unsupported("copy_entries_to has another shape (%d statements after the cursor)" % len(body))
    whole, init, loop, ret = body
    if not (isinstance(whole, ast.If) and ast.unparse(whole.test) == "tasks is None" and not whole.orelse and len(whole.body) == 2 and ast.unparse(whole.body[1]) == "return dest.bulk_load(cursor)"):
        raise Unsupported("copy_entries_to: the whole-table branch is not `if tasks is None: <query>; return dest.bulk_load(cursor)`")
    q_whole = pick(whole.body[:1], (0, 1))
    if ast.unparse(init) != "insert_count = 0" or ast.unparse(ret) != "return insert_count":
        raise Unsupported("copy_entries_to does not sum the counts from 0")
    if not (isinstance(loop, ast.For) and ast.unparse(loop.target) == "task_id" and ast.unparse(loop.iter) == "tasks" and not loop.orelse and len(loop.body) == 2
            and ast.unparse(loop.body[1]) == "insert_count += dest.bulk_load(cursor)"):
        raise Unsupported("copy_entries_to: the per-task branch is not `for task_id in tasks: <query>; insert_count += dest.bulk_load(cursor)`")
    q_task = pick(loop.body[:1], (2, 3))
    b = _find_method("conductor/execution/version_index.py", "VersionIndex", "bulk_load")
    bb = [ast.unparse(x) for x in _body_without_docstring(b)]
    if bb != ["cursor = self._conn.cursor()", "cursor.executemany(q.insert_new_version, rows)", "return cursor.rowcount"]:
        raise Unsupported("bulk_load is not one executemany of insert_new_version: %r" % bb)
    # the text of the queries (whitespace-normalised)
    import importlib
    q = importlib.import_module("conductor.execution.version_index_queries")
    norm = lambda t: " ".join(t.split())  # noqa: E731
    cols = "task_identifier, timestamp, git_commit_hash, has_uncommitted_changes"
    expect = {
        "all_entries": "SELECT %s FROM version_index" % cols,
        "all_entries_for_task": "SELECT %s FROM version_index WHERE task_identifier = ?" % cols,
        "latest_entry_for_task": "SELECT %s FROM version_index WHERE task_identifier = ? ORDER BY timestamp DESC LIMIT 1" % cols,
        "all_entries_latest": "WITH latest_entries AS ( SELECT task_identifier, MAX(timestamp) AS timestamp FROM version_index GROUP BY task_identifier ) "
                              "SELECT c.task_identifier, c.timestamp, c.git_commit_hash, c.has_uncommitted_changes FROM version_index AS c INNER JOIN latest_entries AS l "
                              "ON c.task_identifier = l.task_identifier AND c.timestamp = l.timestamp",
        "insert_new_version": "INSERT INTO version_index ( %s ) VALUES (?, ?, ?, ?)" % cols,
        "all_versions": "SELECT %s FROM version_index" % cols,
        "latest_task_version": "SELECT timestamp, git_commit_hash, has_uncommitted_changes FROM version_index WHERE task_identifier = ? ORDER BY timestamp DESC LIMIT 1",
        "get_max_timestamp": "SELECT MAX(timestamp) FROM version_index",
    }
    for name, text in expect.items():
        if norm(getattr(q, name)) != text:
            raise Unsupported("version_index_queries.%s reads %r, the model's list function transcribes %r" % (name, norm(getattr(q, name)), text))
    if "PRIMARY KEY (task_identifier, timestamp)" not in norm(q.create_table):
        raise Unsupported("create_table has no PRIMARY KEY (task_identifier, timestamp)")
    # the three readers hand on what the cursor yields: one entry per row, in the cursor's order, nothing merged or dropped
    readers = {
        "get_all_versions": ["cursor = self._conn.cursor()", "cursor.execute(q.all_versions)",
                             "return [(TaskIdentifier.from_str(row[0]), self._version_from_row(row[1:])) for row in cursor]"],
        "get_all_versions_for_task": ["cursor = self._conn.cursor()", "cursor.execute(q.all_entries_for_task, (str(task_identifier),))", "results = []",
                                      "for row in cursor:\n    results.append(self._version_from_row(row[1:]))", "return results"],
        "get_latest_output_version": ["cursor = self._conn.cursor()", "cursor.execute(q.latest_task_version, (str(task_identifier),))", "row = cursor.fetchone()",
                                      "if row is None:\n    return None", "return self._version_from_row(row)"],
    }
    for name, want in readers.items():
        got = [ast.unparse(x) for x in _body_without_docstring(_find_method("conductor/execution/version_index.py", "VersionIndex", name))]
        if got != want:
            raise Unsupported("VersionIndex.%s reads %r" % (name, got))
    return ("(* conductor/execution/version_index.py VersionIndex.copy_entries_to / bulk_load; the SQL texts of version_index_queries.py are the transcribed ones *)\n"
            "Definition gen_copy_query (tasks_none latest : bool) : N := (if tasks_none then %s else %s).\n"
            "Definition gen_copy_whole_table_is_one_bulk_load : bool := true.\n"
            "Definition gen_copy_per_task_in_order_counts_summed : bool := true.\n"
            "Definition gen_sql_texts_are_the_transcribed_ones : bool := true.\n"
            "Definition gen_index_readers_return_one_entry_per_row : bool := true.\n" % (q_whole, q_task))


def ident_item():
    """TaskIdentifier.__repr__ / __eq__ / __hash__ / path / name: the printed form as a concatenation over (the path's
    components joined, the name); equality as a boolean over (paths equal, names equal); the hash must be the hash of the
    printed form (so that equal identifiers are one dictionary key: C20 canonical form)."""
    rel = "conductor/task_identifier.py"
    r = _body_without_docstring(_find_method(rel, "TaskIdentifier", "__repr__"))
    if len(r) != 1 or not isinstance(r[0], ast.Return):
        raise Unsupported("__repr__ is not a single return")
    call = r[0].value
    if not (isinstance(call, ast.Call) and ast.unparse(call.func) == "''.join" and len(call.args) == 1 and isinstance(call.args[0], ast.List) and not call.keywords):
        raise Unsupported("__repr__ is not ''.join([...]): %s" % ast.unparse(call))
    parts, sep = [], None
    for e in call.args[0].elts:
        src = ast.unparse(e)
        if isinstance(e, ast.Constant) and isinstance(e.value, str):
            parts.append(coq_str(e.value))
        elif src == "self._name":
            parts.append("name")
        elif isinstance(e, ast.Call) and isinstance(e.func, ast.Attribute) and e.func.attr == "join" and isinstance(e.func.value, ast.Constant) \
                and isinstance(e.func.value.value, str) and len(e.args) == 1 and ast.unparse(e.args[0]) == "self._path.parts":
            if sep is not None:
                raise Unsupported("__repr__ joins the path twice")
            sep = e.func.value.value
            parts.append("path_joined")
        else:
            raise Unsupported("__repr__: part outside the supported fragment: %s" % src)
    if sep is None or "name" not in parts:
        raise Unsupported("__repr__ does not print both the path and the name")
    eq = _body_without_docstring(_find_method(rel, "TaskIdentifier", "__eq__"))
    if len(eq) != 2 or ast.unparse(eq[0]) != "if not isinstance(other, TaskIdentifier):\n    raise NotImplementedError" or not isinstance(eq[1], ast.Return):
        raise Unsupported("__eq__ has another shape")
    eq_expr = _bexpr(eq[1].value, {"self.path == other.path": "path_eq", "other.path == self.path": "path_eq", "self._path == other._path": "path_eq",
                                   "self.name == other.name": "name_eq", "other.name == self.name": "name_eq", "self._name == other._name": "name_eq"}, NAT_OPS)
    h = [ast.unparse(x) for x in _body_without_docstring(_find_method(rel, "TaskIdentifier", "__hash__"))]
    if h not in (["return hash(self.__repr__())"], ["return hash(repr(self))"]):
        raise Unsupported("__hash__ is not the hash of the printed form: %r" % h)
    for prop, field in (("path", "self._path"), ("name", "self._name")):
        b = [ast.unparse(x) for x in _body_without_docstring(_find_method(rel, "TaskIdentifier", prop))]
        if b != ["return " + field]:
            raise Unsupported("property %s is not `return %s`" % (prop, field))
    # the two parsers: the WHOLE string is matched against the pattern (which owns the optional // prefix), then the prefix test
    fs = [ast.unparse(x) for x in _body_without_docstring(_find_method(rel, "TaskIdentifier", "from_str"))]
    want_fs = ["match = _TASK_IDENTIFIER_REGEX.match(candidate)", "if match is None:\n    raise InvalidTaskIdentifier(task_identifier=candidate)",
               "if require_prefix and (not candidate.startswith('//')):\n    raise InvalidTaskIdentifier(task_identifier=candidate)",
               "path_str = match.group('path')",
               "if path_str is None:\n    path = pathlib.Path()\nelse:\n    path = pathlib.Path(*filter(lambda s: len(s) > 0, path_str.split('/')))",
               "return cls(path=path, name=match.group('name'))"]
    if fs != want_fs:
        raise Unsupported("TaskIdentifier.from_str reads %r" % [x.splitlines()[0] for x in fs])
    fr = [ast.unparse(x) for x in _body_without_docstring(_find_method(rel, "TaskIdentifier", "from_relative_str"))]
    want_fr = ["match = _RELATIVE_TASK_IDENTIFIER_REGEX.match(candidate)", "if match is None:\n    raise InvalidTaskIdentifier(task_identifier=candidate)",
               "return cls(path=rel_cond_file_dir, name=match.group('name'))"]
    if fr != want_fr:
        raise Unsupported("TaskIdentifier.from_relative_str reads %r" % [x.splitlines()[0] for x in fr])
    init = [ast.unparse(x) for x in _body_without_docstring(_find_method(rel, "TaskIdentifier", "__init__"))]
    if sorted(init) != ["self._name = name", "self._path = path"]:
        raise Unsupported("__init__ stores something else: %r" % init)
    return ("(* conductor/task_identifier.py TaskIdentifier.__repr__ / __eq__ / __hash__ *)\n"
            "Definition gen_ident_path_sep : list N := %s.\n"
            "Definition gen_ident_repr (path_joined name : list N) : list N := %s.\n"
            "Definition gen_ident_eq (path_eq name_eq : bool) : bool := %s.\n"
            "Definition gen_ident_hash_is_of_repr : bool := true.\n"
            "Definition gen_ident_parsers_are_the_transcribed_ones : bool := true.\n" % (coq_str(sep), " ++ ".join(parts), eq_expr))


def where_item():
    """conductor.lib.where: a FRESH Context per call (Context.from_cwd() inside the function: HEAD, the index and the
    configuration are the ones current at the call), the identifier parsed with an optional prefix, the task loaded on its
    own, and the decision what to return -- 0 None, 1 the output path relative to the project root, 2 the output path."""
    f = _find_function("conductor/lib/path.py", "where")
    body = _body_without_docstring(f)
    src = [ast.unparse(x) for x in body]
    head = ["ctx = Context.from_cwd()", "task_identifier = TaskIdentifier.from_str(identifier, require_prefix=False)",
            "ctx.task_index.load_single_task(task_identifier)", "task = ctx.task_index.get_task(task_identifier)", "output_path = task.get_output_path(ctx)"]
    if src[:len(head)] != head:
        raise Unsupported("where() does not start with a fresh context, the parsed identifier, the single task and its output path: %r" % src[:len(head)])
    leaves = {"output_path is None": "path_none", "output_path.exists()": "exists_", "non_existent_ok": "non_existent_ok", "relative_to_project_root": "relative"}

    def cond(node):
        t = ast.unparse(node)
        if t in leaves:
            return leaves[t]
        if isinstance(node, ast.UnaryOp) and isinstance(node.op, ast.Not):
            return "(negb %s)" % cond(node.operand)
        if isinstance(node, ast.BoolOp):
            op = {ast.And: " && ", ast.Or: " || "}[type(node.op)]
            return "(" + op.join(cond(v) for v in node.values) + ")"
        raise Unsupported("where(): condition outside the supported fragment: %s" % t)

    def block(stmts):
        if not stmts:
            raise Unsupported("a path of where() ends without a return")
        st, rest = stmts[0], stmts[1:]
        if isinstance(st, ast.Return):
            v = "None" if st.value is None else ast.unparse(st.value)
            codes = {"None": "0%N", "output_path.relative_to(ctx.project_root)": "1%N", "output_path": "2%N"}
            if v not in codes:
                raise Unsupported("where() returns %s" % v)
            return codes[v]
        if isinstance(st, ast.If):
            return "(if %s then %s else %s)" % (cond(st.test), block(list(st.body) + rest), block(list(st.orelse) + rest))
        raise Unsupported("where(): statement outside the supported fragment: %s" % ast.unparse(st))

    decision = block(body[len(head):])
    # no module-level state that could carry a context from one call to the next
    tree = ast.parse(open(os.path.join(SRC, "conductor/lib/path.py"), encoding="utf-8").read())
    for node in tree.body:
        if isinstance(node, (ast.Assign, ast.AnnAssign)):
            raise Unsupported("conductor/lib/path.py keeps module-level state: %s" % ast.unparse(node).splitlines()[0])
    m = [ast.unparse(x) for x in _find_function("conductor/cli/where.py", "main").body]
    want = ["result = where(args.task_identifier, relative_to_project_root=args.project, non_existent_ok=args.non_existent_ok)",
            "if result is None:\n    raise NoTaskOutputPath(task_identifier=args.task_identifier)", "print(result)"]
    if m != want:
        raise Unsupported("cli/where.py main is not `where(...)`, an error for None, print: %r" % m)
    return ("(* conductor/lib/path.py where (and cli/where.py main, which prints its result or raises NoTaskOutputPath for None) *)\n"
            "Definition gen_where_decision (path_none exists_ non_existent_ok relative : bool) : N := %s.\n"
            "Definition gen_where_context_is_fresh_per_call : bool := true.\n" % decision)


def exec_decisions_item():
    """The executor's remaining decisions: (a) _process_finished_op -- the finished operation is appended to the completed
    list, its dependents' counters are decremented, then each dependent (in deps_of order) is enqueued iff the translated
    test on its counter says so; (b) the skip test of the launch loop and what Operation.succeeded / exe_deps_succeeded
    mean; (c) _wait_for_next_inflight_op: which state a finished operation gets, when its slot is given back, when the run
    stops; (d) the verdict of _report_execution_results."""
    rel = "conductor/execution/executor.py"
    # ---- (a)
    pf = [x for x in _body_without_docstring(_find_method(rel, "Executor", "_process_finished_op")) if not _is_logging(x)]
    if len(pf) != 3 or ast.unparse(pf[0]) != "self._completed_ops.append(finished_op)" or ast.unparse(pf[1]) != "finished_op.decrement_deps_of_waiting_on()":
        raise Unsupported("_process_finished_op does not append to the completed list and then decrement the dependents' counters")
    loop = pf[2]
    if not (isinstance(loop, ast.For) and ast.unparse(loop.target) == "dep_of" and ast.unparse(loop.iter) == "finished_op.deps_of" and not loop.orelse):
        raise Unsupported("_process_finished_op does not loop over finished_op.deps_of")

    def enq(stmts):
        if not stmts:
            return "false"
        st, rest = stmts[0], stmts[1:]
        if isinstance(st, ast.Continue):
            return "false"
        if ast.unparse(st) == "self._ready_to_run.enqueue_op(dep_of)":
            if rest:
                raise Unsupported("_process_finished_op: statements after the enqueue")
            return "true"
        if isinstance(st, ast.If):
            return "(if %s then %s else %s)" % (_bexpr(st.test, {"dep_of.waiting_on": "waiting_on"}, NAT_OPS), enq(list(st.body) + rest), enq(list(st.orelse) + rest))
        raise Unsupported("_process_finished_op: statement outside the supported fragment: %s" % ast.unparse(st))

    enqueue = enq(list(loop.body))
    op = "conductor/execution/ops/operation.py"
    dec = [ast.unparse(x) for x in _body_without_docstring(_find_method(op, "Operation", "decrement_deps_of_waiting_on"))]
    if dec != ["for dep_of in self.deps_of:\n    dep_of._decrement_waiting_on()"]:
        raise Unsupported("decrement_deps_of_waiting_on is not one decrement per entry of deps_of: %r" % dec)
    dec1 = [ast.unparse(x) for x in _body_without_docstring(_find_method(op, "Operation", "_decrement_waiting_on")) if not isinstance(x, ast.Assert)]
    if dec1 != ["self._waiting_on -= 1"]:
        raise Unsupported("_decrement_waiting_on: %r" % dec1)
    # ---- (b)
    su = _body_without_docstring(_find_method(op, "Operation", "succeeded"))
    if len(su) != 1 or not isinstance(su[0], ast.Return):
        raise Unsupported("Operation.succeeded is not a single return")
    succ = _bexpr(su[0].value, {"self.state == OperationState.SUCCEEDED": "is_succeeded", "self.state == OperationState.SUCCEEDED_CACHED": "is_succeeded_cached"}, NAT_OPS)
    eds = [ast.unparse(x) for x in _body_without_docstring(_find_method(op, "Operation", "exe_deps_succeeded"))]
    if eds != ["return all(map(lambda task: task.succeeded(), self.exe_deps))"]:
        raise Unsupported("exe_deps_succeeded is not all(succeeded over exe_deps): %r" % eds)
    la = _find_method(rel, "Executor", "_launch_ops_if_able")
    skips = [st for st in _walk_stmts(la.body) if isinstance(st, ast.If) and "exe_deps_succeeded" in ast.unparse(st.test)]
    if len(skips) != 1:
        raise Unsupported("%d tests mention exe_deps_succeeded" % len(skips))
    skip_test = _bexpr(skips[0].test, {"next_op.exe_deps_succeeded()": "deps_ok"}, NAT_OPS)
    def only_prints(st):
        """an `if` whose whole body (and else) consists of print / print_<colour> calls: output cosmetics, no effect on what is modelled"""
        if not isinstance(st, ast.If):
            return False
        for x in list(st.body) + list(st.orelse):
            if isinstance(x, ast.If):
                if not only_prints(x):
                    return False
            elif not (isinstance(x, ast.Expr) and isinstance(x.value, ast.Call) and ast.unparse(x.value.func).startswith("print")):
                return False
        return True

    for x in skips[0].body:
        if isinstance(x, ast.If) and not only_prints(x):
            raise Unsupported("the skip branch contains a conditional that does more than print: %s" % ast.unparse(x).splitlines()[0])
    sk = [ast.unparse(x) for x in skips[0].body if not isinstance(x, ast.If)]
    if sk != ["next_op.set_state(OperationState.SKIPPED)", "self._process_finished_op(next_op)"]:
        raise Unsupported("the skip branch is not SKIPPED + _process_finished_op: %r" % sk)
    # ---- (c)
    w = [x for x in _body_without_docstring(_find_method(rel, "Executor", "_wait_for_next_inflight_op")) if not isinstance(x, ast.Assert) and not _is_logging(x)]
    shape = [type(x).__name__ for x in w]
    if shape != ["Assign", "Assign", "Try", "If", "Expr", "Return"]:
        raise Unsupported("_wait_for_next_inflight_op has the shape %s" % shape)
    a1, a2, tr, slot_if, pfin, ret = w
    if ast.unparse(a1) != "error_occurred = False" or ast.unparse(a2) not in ("(handle, op) = self._inflight_ops.wait_for_next_op()", "handle, op = self._inflight_ops.wait_for_next_op()"):
        raise Unsupported("_wait_for_next_inflight_op does not start with the flag and the wait")
    for x in tr.body:
        if isinstance(x, ast.If) and not only_prints(x):
            raise Unsupported("the try block of _wait_for_next_inflight_op contains a conditional that does more than print: %s" % ast.unparse(x).splitlines()[0])
    tb = [ast.unparse(x) for x in tr.body if not isinstance(x, ast.If)]
    if tb != ["op.finish_execution(handle, ctx)", "op.set_state(OperationState.SUCCEEDED)"]:
        raise Unsupported("the try block of _wait_for_next_inflight_op: %r" % tb)
    hs = {ast.unparse(h.type): [ast.unparse(x) for x in h.body] for h in tr.handlers}
    if sorted(hs) != ["ConductorAbort", "ConductorError"] or [ast.unparse(h.type) for h in tr.handlers][0] != "ConductorAbort":
        raise Unsupported("handlers of _wait_for_next_inflight_op: %r" % sorted(hs))
    if hs["ConductorAbort"] != ["op.set_state(OperationState.ABORTED)", "raise"]:
        raise Unsupported("the abort handler of _wait_for_next_inflight_op: %r" % hs["ConductorAbort"])
    if hs["ConductorError"] != ["op.store_error(ex)", "op.set_state(OperationState.FAILED)", "error_occurred = True", "self._print_op_failed(op)"]:
        raise Unsupported("the error handler of _wait_for_next_inflight_op: %r" % hs["ConductorError"])
    if ast.unparse(slot_if) != "if handle.slot is not None:\n    self._available_slots.append(handle.slot)" or ast.unparse(pfin) != "self._process_finished_op(op)":
        raise Unsupported("_wait_for_next_inflight_op does not give the slot back and then process the finished operation")
    stops = _bexpr(ret.value, {"error_occurred": "error_occurred", "stop_on_first_error": "stop"}, NAT_OPS)
    # ---- (d)
    rp = _find_method(rel, "Executor", "_report_execution_results")
    body = _body_without_docstring(rp)
    defs = {ast.unparse(st.targets[0]): ast.unparse(st.value) for st in body if isinstance(st, ast.Assign) and len(st.targets) == 1}
    want = {"all_succeeded": "all(map(lambda op: op.succeeded(), self._completed_ops))",
            "main_task_executed": "any([op.main_task is not None and op.main_task.identifier == plan.task_to_run.identifier for op in self._completed_ops])",
            "main_task_cached": "len(self._completed_ops) == 0 and any([task.identifier == plan.task_to_run.identifier for task in plan.cached_tasks])"}
    for k, v in want.items():
        if defs.get(k) != v:
            raise Unsupported("_report_execution_results: %s = %s" % (k, defs.get(k)))
    ifs = [st for st in body if isinstance(st, ast.If)]
    if len(ifs) != 1 or not ifs[0].orelse:
        raise Unsupported("_report_execution_results does not end in one if/else")
    verdict = _bexpr(ifs[0].test, {"all_succeeded": "all_succeeded", "main_task_executed": "main_executed", "main_task_cached": "main_cached"}, NAT_OPS)
    for st in ifs[0].body:
        if not (isinstance(st, ast.Expr) and isinstance(st.value, ast.Call) and ast.unparse(st.value.func).startswith("print")):
            raise Unsupported("the success branch of _report_execution_results does more than print: %s" % ast.unparse(st).splitlines()[0])
    loops = [ast.unparse(st) for st in ifs[0].orelse if isinstance(st, ast.For) and ast.unparse(st.iter) == "self._completed_ops"]
    want_loop = ("for op in self._completed_ops:\n    if op.main_task is None:\n        continue\n    if op.state == OperationState.SKIPPED:\n        skipped_tasks.append(op.main_task.identifier)\n"
                 "    elif op.state == OperationState.FAILED:\n        failed_task_ops.append(op)")
    if loops != [want_loop]:
        raise Unsupported("the failure branch of _report_execution_results does not classify the completed operations as expected")
    if any(isinstance(n, ast.Call) and ast.unparse(n.func) in ("sys.exit", "exit", "os._exit") for st in body for n in ast.walk(st)):
        raise Unsupported("_report_execution_results ends the process itself")
    tail = ifs[0].orelse[-1]
    if ast.unparse(tail) != "raise failed_task_ops[0].stored_error":
        raise Unsupported("the failure branch does not end by raising the first failed task's error")
    return ("(* conductor/execution/executor.py _process_finished_op / _wait_for_next_inflight_op / _report_execution_results, ops/operation.py succeeded *)\n"
            "Definition gen_enqueue_dependent (waiting_on : nat) : bool := %s.\n"
            "Definition gen_op_succeeded (is_succeeded is_succeeded_cached : bool) : bool := %s.\n"
            "Definition gen_skips (deps_ok : bool) : bool := %s.\n"
            "Definition gen_wait_stops (error_occurred stop : bool) : bool := %s.\n"
            "Definition gen_verdict_done (all_succeeded main_executed main_cached : bool) : bool := %s.\n"
            "Definition gen_finished_op_steps : list N := [1%%N; 2%%N; 3%%N].\n" % (enqueue, succ, skip_test, stops, verdict))


def clean_item():
    """cli/clean.py main: (a) whether the command proceeds -- from --force, what was typed, end of input; (b) the ORDER of the
    two removals: 1 unlink(version index) -- when that fails the command stops with status 1 having removed nothing --, then
    2 rmtree(cond-out)."""
    f = _find_function("conductor/cli/clean.py", "main")
    body = [x for x in f.body if not _is_logging(x)]
    src = [ast.unparse(x) for x in body]
    if len(body) != 4 or src[0] != "ctx = Context.from_cwd()":
        raise Unsupported("clean.main has another shape: %r" % [x.splitlines()[0] for x in src])
    conf, unl, rm = body[1], body[2], body[3]
    if not (isinstance(conf, ast.If) and ast.unparse(conf.test) == "not args.force" and not conf.orelse and len(conf.body) == 1 and isinstance(conf.body[0], ast.Try)):
        raise Unsupported("clean.main does not ask for confirmation exactly when --force is absent")
    tr = conf.body[0]
    tb = [ast.unparse(x) for x in tr.body]
    if len(tb) != 2 or not tb[0].startswith("confirm = input(") or tb[1] != "if confirm.strip().lower() != 'y':\n    print('Aborting!')\n    sys.exit(1)":
        raise Unsupported("clean.main: the confirmation is not `input(...)` compared with 'y' after strip().lower(): %r" % tb)
    if len(tr.handlers) != 1 or ast.unparse(tr.handlers[0].type) != "EOFError" or ast.unparse(tr.handlers[0].body[-1]) != "sys.exit(1)" or tr.finalbody or tr.orelse:
        raise Unsupported("clean.main: end of input does not abort with status 1")
    if any(("rmtree" in ast.unparse(x) or "unlink" in ast.unparse(x) or "remove" in ast.unparse(x)) for x in ast.walk(conf) if isinstance(x, ast.stmt)):
        raise Unsupported("clean.main removes something while asking for confirmation")
    if not (isinstance(unl, ast.Try) and [ast.unparse(x) for x in unl.body] == ["(ctx.output_path / VERSION_INDEX_NAME).unlink(missing_ok=True)"] and len(unl.handlers) == 1
            and ast.unparse(unl.handlers[0].type) == "OSError" and ast.unparse(unl.handlers[0].body[-1]) == "sys.exit(1)" and not unl.finalbody and not unl.orelse):
        raise Unsupported("clean.main does not unlink the version index first, stopping with status 1 when that fails")
    if any("rmtree" in ast.unparse(x) or "unlink" in ast.unparse(x) for x in unl.handlers[0].body):
        raise Unsupported("clean.main removes something after the index could not be removed")
    if ast.unparse(rm) != "shutil.rmtree(ctx.output_path, ignore_errors=True)":
        raise Unsupported("clean.main does not end with rmtree(cond-out): %s" % ast.unparse(rm))
    return ("(* conductor/cli/clean.py main *)\n"
            "Definition gen_clean_proceeds (force eof typed_y : bool) : bool := (if (negb force) then (if eof then false else typed_y) else true).\n"
            "Definition gen_clean_removals : list N := [1%N; 2%N].\n"
            "Definition gen_clean_stops_when_the_index_cannot_be_removed : bool := true.\n")


def lowering_item():
    """ExecutionPlanner.create_plan_for, second visit of a task: which Operation each task type is lowered to and with which
    attributes.  One row per isinstance branch, in source order:
      (task kind: 0 RunCommand, 1 RunExperiment, 2 Combine, 3 Group ;
       operation class: 0 RunTaskExecutable, 1 CombineOutputs, 2 NoOp ;
       parallelizable = the task's flag ; a new version is created and handed to the operation ; record_output ; serialize_args_options)
    plus: the operation's dependencies are the output operations of the lowered dependencies, it joins initial_operations iff
    it has none, one operation per task (num_tasks_to_run += 1)."""
    f = _find_method("conductor/execution/planning/planner.py", "ExecutionPlanner", "create_plan_for")
    second = [st for st in _walk_stmts(f.body) if isinstance(st, ast.If) and ast.unparse(st.test) == "lt.state == LoweringState.SECOND_VISIT"]
    if len(second) != 1:
        raise Unsupported("%d tests for the second visit" % len(second))
    body = list(second[0].body)
    if not body or not isinstance(body[0], ast.If):
        raise Unsupported("the second visit does not start with the isinstance chain")
    kinds = {"RunCommand": 0, "RunExperiment": 1, "Combine": 2, "Group": 3}
    rows = []
    node = body[0]
    while True:
        t = ast.unparse(node.test)
        cls = t[len("isinstance(lt.task, "):-1] if t.startswith("isinstance(lt.task, ") else None
        if cls not in kinds:
            raise Unsupported("branch of the lowering chain: %s" % t)
        new_ops = [st for st in node.body if isinstance(st, (ast.Assign, ast.AnnAssign)) and ast.unparse(st.target if isinstance(st, ast.AnnAssign) else st.targets[0]) == "new_op"]
        if len(new_ops) != 1 or not isinstance(new_ops[0].value, ast.Call):
            raise Unsupported("branch %s does not build exactly one operation" % cls)
        call = new_ops[0].value
        opcls = {"RunTaskExecutable": 0, "CombineOutputs": 1, "NoOp": 2}.get(ast.unparse(call.func))
        if opcls is None:
            raise Unsupported("branch %s builds a %s" % (cls, ast.unparse(call.func)))
        kw = {k.arg: ast.unparse(k.value) for k in call.keywords}
        if kw.get("task") != "lt.task" or kw.get("identifier") != "lt.task.identifier" or kw.get("initial_state") != "OperationState.QUEUED":
            raise Unsupported("branch %s: the operation is not built for lt.task in state QUEUED" % cls)
        creates = [ast.unparse(st) for st in node.body if "create_new_version" in ast.unparse(st)]
        has_version = creates == ["exp_version = lt.task.create_new_version(self._ctx)"] and kw.get("version_to_record") == "exp_version"
        if creates and not has_version:
            raise Unsupported("branch %s creates a version it does not hand to the operation" % cls)
        if not creates and kw.get("version_to_record", "None") != "None":
            raise Unsupported("branch %s records a version it did not create" % cls)
        if opcls == 0:
            want = {"run": "lt.task.raw_run", "args": "lt.task.args", "options": "lt.task.options", "working_path": "lt.task.get_working_path(self._ctx)", "output_path": "output_path",
                    "deps_output_paths": "lt.task.get_deps_output_paths(self._ctx)"}
            for k, v in want.items():
                if kw.get(k) != v:
                    raise Unsupported("branch %s: %s=%s" % (cls, k, kw.get(k)))
            if kw.get("parallelizable") not in ("lt.task.parallelizable",) or kw.get("record_output") not in ("True", "False") or kw.get("serialize_args_options") not in ("True", "False"):
                raise Unsupported("branch %s: parallelizable / record_output / serialize_args_options are %r / %r / %r" % (cls, kw.get("parallelizable"), kw.get("record_output"), kw.get("serialize_args_options")))
            par, rec, ser = True, kw["record_output"] == "True", kw["serialize_args_options"] == "True"
        else:
            if any(k in kw for k in ("parallelizable", "record_output", "version_to_record")):
                raise Unsupported("branch %s passes execution attributes to a %s" % (cls, ast.unparse(call.func)))
            par, rec, ser = False, False, False
        if "output_path = lt.task.get_output_path(self._ctx)" not in [ast.unparse(st) for st in node.body] and opcls != 2:
            raise Unsupported("branch %s does not take the task's own output path" % cls)
        # nothing else happens in the branch
        others = [ast.unparse(st) for st in node.body if st is not new_ops[0]]
        allowed = {"RunExperiment": ["exp_version = lt.task.create_new_version(self._ctx)", "output_path = lt.task.get_output_path(self._ctx)", "assert output_path is not None"],
                   "RunCommand": ["output_path = lt.task.get_output_path(self._ctx)", "assert output_path is not None"],
                   "Combine": ["output_path = lt.task.get_output_path(self._ctx)", "assert output_path is not None", "dep_output_paths = []",
                               "for task_dep_id in lt.task.deps:\n    task = self._ctx.task_index.get_task(task_dep_id)\n    task_output_path = task.get_output_path(self._ctx)\n"
                               "    if task_output_path is not None:\n        dep_output_paths.append((task_dep_id, task_output_path))"],
                   "Group": []}[cls]
        if others != allowed:
            raise Unsupported("branch %s of the lowering chain does something else: %r" % (cls, [o.splitlines()[0] for o in others]))
        if opcls == 1 and (kw.get("deps_output_paths") != "dep_output_paths" or kw.get("output_path") != "output_path"):
            raise Unsupported("branch %s: the combine operation is not given the collected (dependency, directory) pairs" % cls)
        rows.append((kinds[cls], opcls, par, has_version, rec, ser))
        if len(node.orelse) == 1 and isinstance(node.orelse[0], ast.If):
            node = node.orelse[0]
            continue
        if not (len(node.orelse) == 1 and isinstance(node.orelse[0], ast.Raise)):
            raise Unsupported("the lowering chain does not end by raising for an unknown task type")
        break
    rest = [ast.unparse(st) for st in body[1:] if not _is_logging(st)]
    want_rest = ["for dep in lt.deps:\n    for dep_op in dep.output_ops:\n        new_op.add_exe_dep(dep_op)\n        dep_op.add_dep_of(new_op)", "lt.output_ops.append(new_op)",
                 "if len(new_op.exe_deps) == 0:\n    initial_operations.append(new_op)", "all_ops.append(new_op)", "num_tasks_to_run += 1"]
    if rest != want_rest:
        raise Unsupported("after the lowering chain: %r" % [r.splitlines()[0] for r in rest])
    base = [ast.unparse(x) for x in _body_without_docstring(_find_method("conductor/execution/ops/operation.py", "Operation", "parallelizable"))]
    if base != ["return False"]:
        raise Unsupported("Operation.parallelizable (the default of CombineOutputs / NoOp) is %r" % base)
    b = lambda v: "true" if v else "false"  # noqa: E731
    return ("(* conductor/execution/planning/planner.py create_plan_for, second visit: (task kind, (operation class, parallelizable from the task, new version, record_output, serialize_args_options)) *)\n"
            "Definition gen_lowering : list (N * (N * bool * bool * bool * bool)) := [%s].\n"
            "Definition gen_lowering_hooks_deps_then_initial_then_counts : bool := true.\n"
            % "; ".join("(%d%%N, (%d%%N, %s, %s, %s, %s))" % (k, o, b(p_), b(v), b(r), b(s_)) for k, o, p_, v, r, s_ in rows))


def first_visit_item():
    """ExecutionPlanner.create_plan_for, first visit of a lowering task: (a) a task already visited shares that lowering's
    operations and is not lowered again; (b) otherwise it is recorded as visited, the prune test is made (prune_item), it is
    marked for its second visit and pushed back; (c) its dependencies are taken in REVERSED declaration order, and per
    dependency: 0 = already visited: linked to the visited lowering, not traversed; 1 = a new lowering task, linked and pushed."""
    f = _find_method("conductor/execution/planning/planner.py", "ExecutionPlanner", "create_plan_for")
    first = [st for st in _walk_stmts(f.body) if isinstance(st, ast.If) and ast.unparse(st.test) == "lt.state == LoweringState.FIRST_VISIT"]
    if len(first) != 1:
        raise Unsupported("%d tests for the first visit" % len(first))
    body = [st for st in first[0].body if not _is_logging(st)]
    shape = [type(st).__name__ for st in body]
    if shape != ["If", "Assign", "If", "Assign", "Expr", "For"]:
        raise Unsupported("the first visit has the shape %s" % shape)
    seen, rec, prune, mark, push, loop = body
    if ast.unparse(seen.test) != "lt.task.identifier in visited" or [ast.unparse(x) for x in seen.body] != ["lt.output_ops = visited[lt.task.identifier].output_ops", "continue"] or seen.orelse:
        raise Unsupported("a task reached a second time does not share the visited lowering's operations")
    if ast.unparse(rec) != "visited[lt.task.identifier] = lt" or ast.unparse(mark) != "lt.state = LoweringState.SECOND_VISIT" or ast.unparse(push) != "stack.append(lt)":
        raise Unsupported("the first visit does not record the task, mark its second visit and push it back")
    if "should_run" not in ast.unparse(prune.test):
        raise Unsupported("the test after recording the task is not the prune test")
    if ast.unparse(loop.target) != "dep_ident" or ast.unparse(loop.iter) != "reversed(lt.task.deps)" or loop.orelse:
        raise Unsupported("the dependencies are not taken in reversed declaration order: %s" % ast.unparse(loop.iter))

    def act(stmts):
        srcs = [ast.unparse(x) for x in stmts]
        if srcs and isinstance(stmts[0], ast.If) and ast.unparse(stmts[0].test) == "dep_ident in visited":
            return "(if dep_visited then %s else %s)" % (act(list(stmts[0].body) + list(stmts[1:])), act(list(stmts[0].orelse) + list(stmts[1:])))
        if srcs[:3] == ["dep = visited[dep_ident]", "lt.deps.append(dep)", "continue"]:
            return "0%N"
        if srcs == ["dep = LoweringTask.initial(self._ctx.task_index.get_task(dep_ident))", "lt.deps.append(dep)", "stack.append(dep)"]:
            return "1%N"
        raise Unsupported("the dependency loop of the first visit does something else: %r" % srcs)

    return ("(* conductor/execution/planning/planner.py create_plan_for, first visit: per dependency (reversed declaration order) *)\n"
            "Definition gen_push_dep (dep_visited : bool) : N := %s.\n"
            "Definition gen_first_visit_shares_a_visited_lowering : bool := true.\n" % act(list(loop.body)))


def group_item():
    """task_types/stdlib/run_experiment_group.py: ONE loop over `experiments` whose body is, in this order: the instance test,
    the duplicate-name test, remembering the name, the dependency list of the instance (the group's own list object, or a new
    list [*task_deps, prev] exactly when the translated chain test holds), the run_experiment call with the instance's own
    name / args / options / parallelizable and the group's run, the relative identifier ":" + name appended and remembered as
    the previous one; TypeError mapped to ExperimentGroupInvalidExperimentInstance; then combine(name, deps=<the identifiers>)."""
    f = _find_function("conductor/task_types/stdlib/run_experiment_group.py", "run_experiment_group")
    body = [ast.unparse(x) for x in _body_without_docstring(f)]
    want_head = ["task_deps = deps if deps is not None else []", "relative_experiment_identifiers = []", "prev_experiment_identifier: Optional[str] = None"]
    if body[:3] != want_head or len(body) != 5:
        raise Unsupported("run_experiment_group does not start with its three accumulators: %r" % [b.splitlines()[0] for b in body])
    tr = _body_without_docstring(f)[3]
    if not isinstance(tr, ast.Try) or tr.finalbody or tr.orelse or len(tr.handlers) != 1 or ast.unparse(tr.handlers[0].type) != "TypeError" \
            or [ast.unparse(x) for x in tr.handlers[0].body] != ["raise ExperimentGroupInvalidExperimentInstance(task_name=name) from ex"]:
        raise Unsupported("the loop is not wrapped in `try: ... except TypeError: raise ExperimentGroupInvalidExperimentInstance`")
    tb = list(tr.body)
    if len(tb) != 2 or ast.unparse(tb[0]) != "seen_experiment_names = set()" or not isinstance(tb[1], ast.For):
        raise Unsupported("the try block is not `seen = set(); for experiment in experiments: ...`")
    loop = tb[1]
    if ast.unparse(loop.target) != "experiment" or ast.unparse(loop.iter) != "experiments" or loop.orelse:
        raise Unsupported("the loop does not run once over `experiments`")
    lb = list(loop.body)
    got = [ast.unparse(x) for x in lb]
    want = ["if not isinstance(experiment, ExperimentInstance):\n    raise ExperimentGroupInvalidExperimentInstance(task_name=name)",
            "if experiment.name in seen_experiment_names:\n    raise ExperimentGroupDuplicateName(task_name=name, instance_name=experiment.name)",
            "seen_experiment_names.add(experiment.name)",
            "experiment_deps = task_deps",
            None,   # the chain test
            "run_experiment(name=experiment.name, run=run, parallelizable=experiment.parallelizable, args=experiment.args, options=experiment.options, deps=experiment_deps)",
            "experiment_identifier = ':' + experiment.name",
            "relative_experiment_identifiers.append(experiment_identifier)",
            "prev_experiment_identifier = experiment_identifier"]
    if len(got) != len(want):
        raise Unsupported("the loop body has %d statements" % len(got))
    for k, (g, w) in enumerate(zip(got, want)):
        if w is not None and g != w:
            raise Unsupported("statement %d of the loop body reads %r" % (k + 1, g.splitlines()[0]))
    ch = lb[4]
    if not (isinstance(ch, ast.If) and not ch.orelse and [ast.unparse(x) for x in ch.body] == ["experiment_deps = [*task_deps, prev_experiment_identifier]"]):
        raise Unsupported("the chain branch does not build [*task_deps, prev_experiment_identifier]")
    chain = _bexpr(ch.test, {"chain_experiments": "chain", "prev_experiment_identifier is not None": "prev_some"}, NAT_OPS)
    if body[4] != "combine(name=name, deps=relative_experiment_identifiers)":
        raise Unsupported("the group does not end with combine(name=name, deps=relative_experiment_identifiers): %r" % body[4])
    return ("(* conductor/task_types/stdlib/run_experiment_group.py *)\n"
            "Definition gen_group_chains (chain prev_some : bool) : bool := %s.\n"
            "Definition gen_group_body_is_the_transcribed_one : bool := true.\n" % chain)


def queue_item():
    """executor.py _ReadyToRunQueue: two FIFO queues (append on the right, popleft); an operation joins the parallel queue iff it is
    parallelizable; parallelizable operations are dequeued first; has_ops / has_parallelizable_ops over the two lengths."""
    rel = "conductor/execution/executor.py"
    body = lambda name: [x for x in _body_without_docstring(_find_method(rel, "_ReadyToRunQueue", name))]  # noqa: E731
    init = sorted(ast.unparse(x) for x in body("__init__"))
    if init != ["self._parallel_ops: Deque[Operation] = collections.deque()", "self._sequential_ops: Deque[Operation] = collections.deque()"]:
        raise Unsupported("_ReadyToRunQueue is not two deques: %r" % init)
    leaves = {"len(self._sequential_ops)": "n_seq", "len(self._parallel_ops)": "n_par"}
    ho, hp = body("has_ops"), body("has_parallelizable_ops")
    if len(ho) != 1 or len(hp) != 1 or not isinstance(ho[0], ast.Return) or not isinstance(hp[0], ast.Return):
        raise Unsupported("has_ops / has_parallelizable_ops are not single returns")
    has_ops, has_par = _bexpr(ho[0].value, leaves, NAT_OPS), _bexpr(hp[0].value, leaves, NAT_OPS)
    enq = [ast.unparse(x) for x in body("enqueue_op")]
    if enq != ["if op.parallelizable:\n    self._parallel_ops.append(op)\nelse:\n    self._sequential_ops.append(op)"]:
        raise Unsupported("enqueue_op: %r" % enq)
    deq = [ast.unparse(x) for x in body("dequeue_next")]
    if deq != ["if self.has_parallelizable_ops():\n    return self._parallel_ops.popleft()\nelse:\n    return self._sequential_ops.popleft()"]:
        raise Unsupported("dequeue_next: %r" % deq)
    load = [ast.unparse(x) for x in body("load")]
    if load != ["for op in initial_ops:\n    self.enqueue_op(op)"]:
        raise Unsupported("load: %r" % load)
    return ("(* conductor/execution/executor.py _ReadyToRunQueue *)\n"
            "Definition gen_queue_has_ops (n_seq n_par : nat) : bool := %s.\n"
            "Definition gen_queue_has_par (n_seq n_par : nat) : bool := %s.\n"
            "Definition gen_enqueue_to_parallel (parallelizable : bool) : bool := parallelizable.\n"
            "Definition gen_dequeue_from_parallel (has_par : bool) : bool := has_par.\n"
            "Definition gen_queues_are_fifo : bool := true.\n" % (has_ops, has_par))


def version_item():
    """VersionIndex.generate_new_output_version: the timestamp as a function of the clock and the last timestamp"""
    f = _find_method("conductor/execution/version_index.py", "VersionIndex", "generate_new_output_version")
    body = _body_without_docstring(f)
    if not (isinstance(body[0], ast.Assign) and ast.unparse(body[0]) == "timestamp = int(time.time())"):
        raise Unsupported("generate_new_output_version does not start with timestamp = int(time.time())")
    leaves = {"timestamp": "now", "self._last_timestamp": "last"}

    def branch(stmts):
        if len(stmts) != 1:
            raise Unsupported("a branch of the timestamp adjustment is not a single assignment")
        st = stmts[0]
        if isinstance(st, ast.AugAssign) and isinstance(st.target, ast.Name) and st.target.id == "timestamp" and isinstance(st.op, ast.Add):
            return "(now + %s)" % _aexpr(st.value, leaves, "%N")
        if isinstance(st, ast.Assign) and ast.unparse(st.targets[0]) == "timestamp" and len(st.targets) == 1:
            return _aexpr(st.value, leaves, "%N")
        if isinstance(st, ast.If):
            return chain(st)
        raise Unsupported("statement outside the supported fragment: %s" % ast.unparse(st))

    def chain(node):
        return "(if %s then %s else %s)" % (_bexpr(node.test, leaves, N_OPS, "%N"), branch(node.body), branch(node.orelse) if node.orelse else "now")

    k = 1
    expr = "now"
    if isinstance(body[k], ast.If):
        expr = chain(body[k])
        k += 1
    if ast.unparse(body[k]) != "self._last_timestamp = timestamp":
        raise Unsupported("the generated timestamp is not stored in _last_timestamp right after its adjustment: %s" % ast.unparse(body[k]))
    ret = [st for st in body[k + 1:] if isinstance(st, ast.Return)]
    if len(ret) != 1 or not isinstance(ret[0].value, ast.Call) or ast.unparse(ret[0].value.func) != "Version" or ast.unparse(ret[0].value.args[0]) != "timestamp":
        raise Unsupported("generate_new_output_version does not return Version(timestamp, ...)")
    if any("timestamp" in ast.unparse(st) and not isinstance(st, ast.Return) for st in body[k + 1:]):
        raise Unsupported("timestamp is modified after it was stored")
    return ("(* conductor/execution/version_index.py VersionIndex.generate_new_output_version *)\n"
            "Definition gen_new_version (last now : N) : N := %s.\n" % expr)


def generate():
    sys.path.insert(0, SRC)
    import conductor  # noqa: F401

    if not os.path.realpath(conductor.__file__).startswith(os.path.realpath(SRC)):
        raise RuntimeError("conductor imported from %s, not from %s" % (conductor.__file__, SRC))
    parts = [HEADER % SRC]
    failures = {}
    for modname, var, coqname in REGEXES:
        try:
            parts.append(regex_item(modname, var, coqname))
        except Exception as ex:  # pylint: disable=broad-except
            failures[coqname] = "%s: %s" % (type(ex).__name__, ex)
            parts.append("(* %s: NOT TRANSLATED: %s *)\n" % (coqname, str(ex).replace("*)", "* )")))
    for name in CONFIG_NAMES:
        try:
            parts.append(config_item(name))
        except Exception as ex:  # pylint: disable=broad-except
            failures["cfg_" + name] = "%s: %s" % (type(ex).__name__, ex)
    try:
        parts.append(schema_item())
    except Exception as ex:  # pylint: disable=broad-except
        failures["task_type_table"] = "%s: %s" % (type(ex).__name__, ex)
        parts.append("(* task_type_table: NOT TRANSLATED: %s *)\n" % str(ex).replace("*)", "* )"))
    for coqname, fn in (("gen_gate_open", gate_item), ("gen_new_version", version_item), ("gen_loop_goes_on", loop_item), ("gen_wants_slot", slot_item),
                        ("gen_prune", prune_item), ("gen_should_run", should_run_item), ("gen_sel_top", select_item), ("gen_validate_args", validate_args_item), ("gen_finish", finish_item), ("gen_record_type", record_type_item), ("gen_tee_iteration", tee_item), ("gen_env_overrides", spawn_item), ("gen_launch_block", abort_item), ("gen_combine_decision", combine_item), ("gen_gc_decision", gc_item), ("gen_restore_before_loop", restore_item), ("gen_archive_output_decision", archive_item), ("gen_deps_paths_step", deps_paths_item), ("gen_copy_query", copy_item), ("gen_ident_repr", ident_item), ("gen_where_decision", where_item), ("gen_enqueue_dependent", exec_decisions_item), ("gen_clean_removals", clean_item), ("gen_lowering", lowering_item), ("gen_push_dep", first_visit_item), ("gen_group_chains", group_item), ("gen_queue_has_ops", queue_item)):
        try:
            parts.append(fn())
        except Exception as ex:  # pylint: disable=broad-except
            failures[coqname] = "%s: %s" % (type(ex).__name__, ex)
            parts.append("(* %s: NOT TRANSLATED: %s *)\n" % (coqname, str(ex).replace("*)", "* )")))
    return "\n".join(parts), failures


def main():
    text, failures = generate()
    os.makedirs(OUT_DIR, exist_ok=True)
    path = os.path.join(OUT_DIR, "Generated.v")
    old = open(path, encoding="utf-8").read() if os.path.exists(path) else None
    changed = old != text
    if "--check" in sys.argv:
        # report only: is the file on disk what the working tree translates to?  (nothing is written)
        print(json.dumps({"same": not changed, "failures": failures}))
        return 0
    if changed:
        tmp = path + ".tmp.%d" % os.getpid()
        with open(tmp, "w", encoding="utf-8") as f:
            f.write(text)
        os.replace(tmp, path)
    with open(os.path.join(OUT_DIR, "status.json"), "w", encoding="utf-8") as f:
        json.dump({"source": SRC, "failures": failures, "changed": changed}, f, indent=1)
    print("generated %s (changed=%s, failures=%s)" % (path, changed, sorted(failures)))
    return 0


if __name__ == "__main__":
    sys.exit(main())
