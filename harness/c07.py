"""C07 -- task environment contract and a consistent dependency snapshot.

proofs : coq/Props/C07.v (command line, library round trip, COND_OUT shape, one new version per task)
tie    : (a) Gen/Generated.v (option format, separator, directory names);
         (b) scheduling engine: the real planner/executor under the fake process layer -- every
             spawn's argv / cwd / env is checked by the oracle below and the dependency snapshot
             (which version of each dependency an operation was handed) is compared with
             Model/Planner.v through Model/RunCase.v;
         (c) command lines and the library functions vs Model/Env.v through the packed channel;
         (d) real bash children (thorough: more) print what they actually receive.
"""
import json
import os
import pathlib

from common import (Check, cstr, clist, cbool, pack, ser_str, ser_list, ser_opt, run_packed_cases, setup_impl_path)
from sched_checks import gen_for, MODEL_TARGETS
from sched_engine import run_cases, ORACLES, load_corpus
from sched_util import Case, Task, run_impl, ident
import implrun


# ----------------------------------------------------------------------------- oracle on spawns
def oracle_c07(case, obs):
    out = []
    root = obs.root
    spawn_of = {}
    for s in obs.spawns:
        spawn_of.setdefault(s["task"], s)

    def expected_dir(d):
        t = case.tasks[d]
        base = os.path.join(root, "cond-out", t.pkg, "t%d.task" % d)
        base = os.path.normpath(base)
        if t.kind == "group":
            return None
        if t.kind in ("command", "combine"):
            return base
        if d in spawn_of:      # executed in this invocation: the directory it was given
            return spawn_of[d]["env"]["COND_OUT"]
        if not t.sr:
            return base + ".%d" % (1000 + d)
        return None

    for s in obs.spawns:
        x = s["task"]
        t = case.tasks[x]
        env = s["env"]
        if s["argv"] != ["true  "] or s["shell"] is not True or s["executable"] != "/bin/bash":
            out.append(("task t%d was spawned as %r (shell=%r executable=%r), expected ['true  '] under /bin/bash" % (x, s["argv"], s["shell"], s["executable"]), None))
        want_cwd = os.path.normpath(os.path.join(root, t.pkg))
        if os.path.normpath(s["cwd"]) != want_cwd:
            out.append(("task t%d ran in %s, its COND file is in %s" % (x, s["cwd"], want_cwd), None))
        if env["COND_NAME"] != "t%d" % x:
            out.append(("task t%d got COND_NAME=%r" % (x, env["COND_NAME"]), None))
        co = env["COND_OUT"]
        base = os.path.normpath(os.path.join(root, "cond-out", t.pkg, "t%d.task" % x))
        ok_out = os.path.isabs(co) and (co == base if t.kind == "command" else co.startswith(base + ".") and co[len(base) + 1:].isdigit())
        if not ok_out or not s["out_exists"]:
            out.append(("task t%d got COND_OUT=%r (exists at spawn: %s), expected %s%s" % (x, co, s["out_exists"], base, "" if t.kind == "command" else ".<version>"), None))
        if t.kind == "experiment" and s["out_listing"] not in ([], ["stdout.log", "stderr.log"], ["stderr.log", "stdout.log"]):
            out.append(("the output directory of t%d was not empty when it started: %s" % (x, s["out_listing"]), None))
        want = [expected_dir(d) for d in t.deps]
        want = [w for w in want if w is not None]
        got = env["COND_DEPS"].split(":") if env["COND_DEPS"] else []
        if got != want:
            out.append(("task t%d got COND_DEPS=%r, expected the output directories of its direct dependencies in declared order %r" % (x, got, want), None))
    # the version recorded for an experiment that ran to a successful end is the one whose directory it was given
    rows = getattr(obs, "index_rows", None) or []
    finished_ok = {e[1] for e in (obs.events or []) if e[0] == "finish" and e[2] == 0}
    for s in obs.spawns:
        x = s["task"]
        if case.tasks[x].kind != "experiment" or x not in finished_ok:
            continue
        co = s["env"]["COND_OUT"]
        suffix = co.rsplit(".", 1)[1] if "." in os.path.basename(co) else ""
        mine = [r[1] for r in rows if r[0] == ident(x, case.tasks[x]) and r[1] != 1000 + x]
        if suffix.isdigit() and mine and int(suffix) not in mine:
            out.append(("experiment t%d ran in %s but the version recorded for it is %r" % (x, co, mine), None))
    # combine links are checked by C18; all dependents see the same directory of a dependency
    seen = {}
    for s in obs.spawns:
        for p in (s["env"]["COND_DEPS"].split(":") if s["env"]["COND_DEPS"] else []):
            key = p.rsplit(".task", 1)[0]
            if seen.setdefault(key, p) != p:
                out.append(("two dependents were handed different versions of one task: %s and %s" % (seen[key], p), None))
    return out


ORACLES["C07"] = oracle_c07


# ----------------------------------------------------------------------------- command lines and library
def gen_values(rng):
    pool = ["a", "x y", "", "--flag", "é", "1.5", "$HOME", "'q'", "a:b", "{key}", "}{", "true"]
    v = rng.choice(["str", "str", "bool", "int", "float"])
    if v == "str":
        return rng.choice(pool)
    if v == "bool":
        return rng.random() < 0.5
    if v == "int":
        return rng.choice([0, -1, 7, 2 ** 70])
    return rng.choice([0.5, 1e20, -2.25, 3.0])


def render(v):
    if isinstance(v, bool):
        return "true" if v else "false"
    return str(v)


def coq_argval(v):
    if isinstance(v, bool):
        return "(ABool %s)" % cbool(v)
    return "(AStr %s)" % cstr(str(v))


def cmdline_cases(chk, n):
    setup_impl_path()
    from conductor.task_identifier import TaskIdentifier
    from conductor.utils.run_arguments import RunArguments
    from conductor.utils.run_options import RunOptions

    rng = chk.rng
    tid = TaskIdentifier.from_str("//:t")
    cases, wants = [], []
    for k in range(n):
        run = rng.choice(["./run.sh", "python3 x.py", "true", ""])
        args = [gen_values(rng) for _ in range(rng.choice([0, 0, 1, 2, 4]))]
        keys = rng.sample(["k", "threads", "a-b", "x_1", "é", "{", "K"], rng.choice([0, 0, 1, 2, 3]))
        opts = {key: gen_values(rng) for key in keys}
        a = RunArguments.from_raw(tid, list(args))
        o = RunOptions.from_raw(tid, dict(opts))
        impl = " ".join([run, a.serialize_cmdline(), o.serialize_cmdline()])
        oracle = " ".join([run, " ".join(render(v) for v in args), " ".join("--%s=%s" % (key, render(v)) for key, v in opts.items())])
        chk.coverage["evaluations"] += 1
        if impl != oracle:
            chk.violation("impl-violation", "command line %r differs from run, args, --key=value options in declared order %r" % (impl, oracle),
                          {"input": {"run": run, "args": [repr(x) for x in args], "options": {k: repr(v) for k, v in opts.items()}},
                           "impl_observation": impl, "oracle_verdict": oracle}, match_key={"cmdline": oracle}, size=len(args) + len(opts))
        cases.append("(%s, (%s, %s))" % (cstr(run), clist([coq_argval(v) for v in args]), clist(["(%s, %s)" % (cstr(key), coq_argval(v)) for key, v in opts.items()])))
        wants.append(pack(ser_opt(ser_str, impl)))
        if k < 3:
            chk.sample({"run": run, "args": [repr(x) for x in args], "options": {kk: repr(v) for kk, v in opts.items()}, "cmdline": impl})
    return cases, wants


def lib_cases(chk, n):
    setup_impl_path()
    import conductor.lib.path as lp

    rng = chk.rng
    cases, wants = [], []
    comps = ["a", "cond-out", "t1.task.5", "x y", "é", "p.q"]
    # a real directory reached through a symbolic link (cond-out on another disk): the library must hand back the
    # paths of COND_OUT / COND_DEPS as they are, not their resolved form
    from common import new_dir

    scratch = new_dir("c07lib")
    os.makedirs(os.path.join(scratch, "disk", "outputs", "a", "t1.task.5"))
    os.symlink(os.path.join(scratch, "disk", "outputs"), os.path.join(scratch, "cond-out"))
    saved = dict(os.environ)
    try:
        for k in range(n):
            pre = (scratch + "/cond-out") if k % 4 == 3 else ""
            paths = [pre + "/" + "/".join(rng.choice(comps) for _ in range(rng.randint(1, 4))) for _ in range(rng.choice([0, 0, 1, 2, 3]))]
            outp = pre + "/" + "/".join(rng.choice(comps) for _ in range(rng.randint(1, 4)))
            if k % 8 == 7:
                outp = scratch + "/cond-out/a/t1.task.5"
            rel = "/".join(rng.choice(comps) for _ in range(rng.randint(1, 2)))
            os.environ["COND_DEPS"] = ":".join(paths)
            os.environ["COND_OUT"] = outp
            got_deps = [str(p) for p in lp.get_deps_paths()]
            got_out = str(lp.get_output_path())
            got_in = str(lp.in_output_dir(rel))
            # what one call returns is the caller's own list: modifying it in place does not change what the next call returns
            first = lp.get_deps_paths()
            if isinstance(first, list):
                first.reverse()
                first.append("scratch-entry")
                if first:
                    first.pop(0)
            again = [str(p) for p in lp.get_deps_paths()]
            if again != got_deps:
                got_deps = got_deps + ["<a second call, after the first result was modified in place, returned %r>" % (again,)]
            chk.coverage["evaluations"] += 1
            if got_deps != paths or got_out != outp or got_in != outp + "/" + rel:
                chk.violation("impl-violation", "support library under COND_DEPS=%r COND_OUT=%r returned deps=%r out=%r in_output_dir(%r)=%r" % (":".join(paths), outp, got_deps, got_out, rel, got_in),
                              {"input": {"COND_DEPS": ":".join(paths), "COND_OUT": outp, "rel": rel},
                               "impl_observation": {"get_deps_paths": got_deps, "get_output_path": got_out, "in_output_dir": got_in},
                               "oracle_verdict": "get_deps_paths() must be the listed directories in order ([] when there are none), get_output_path() = COND_OUT, in_output_dir(p) = COND_OUT/p"},
                              match_key={"cond_deps": ":".join(paths)}, size=len(paths))
            cases.append("(%s, (%s, %s))" % (clist([cstr(p) for p in paths]), cstr(outp), cstr(rel)))
            wants.append(pack(ser_list(ser_str, got_deps) + ser_str(got_out) + ser_str(got_in)))
    finally:
        os.environ.clear()
        os.environ.update(saved)
    return cases, wants


IMPORTS = "From Conductor Require Import Lib.Str Lib.Cmp Model.Ident Model.Env."


def compare_env_model(chk, cmd_cases, cmd_wants, lib_c, lib_w):
    exprs = ["map (fun c => pack (ser_opt ser_str (cmdline (fst c) (fst (snd c)) (snd (snd c))))) %s" % ("[" + ";\n ".join(cmd_cases) + "]"),
             "map (fun c => pack (ser_list ser_str (lib_get_deps_paths (cond_deps (fst c))) ++ ser_str (lib_get_output_path (fst (snd c))) ++ ser_str (lib_in_output_dir (fst (snd c)) (snd (snd c))))) %s" % ("[" + ";\n ".join(lib_c) + "]")]
    res = run_packed_cases(IMPORTS, "", exprs, [cmd_wants, lib_w])
    for name, (ok, bad, raw), n in zip(("cmdline", "library"), res, (len(cmd_cases), len(lib_c))):
        chk.coverage["disagreements_checked"] += n
        if not ok:
            chk.violation("correspondence", "model evaluation failed (%s): %s" % (name, raw[-300:]), {"theorem_or_tie": "correspondence Model/Env.v", "coq_output": raw}, found_input=False)
        elif bad:
            chk.violation("correspondence", "Model/Env.v and the implementation disagree on %s case(s) %s" % (name, bad[:5]),
                          {"theorem_or_tie": "correspondence Model/Env.v vs run_arguments.py/run_options.py/lib/path.py", "case": (cmd_cases if name == "cmdline" else lib_c)[bad[0]]}, found_input=False)
        else:
            chk.coverage["traces_validated_against_impl"] += n


# ----------------------------------------------------------------------------- real children
CHILD = r"""python3 -c 'import os,sys,json; json.dump({"argv": sys.argv[1:], "cwd": os.getcwd(), "env": {k: os.environ.get(k) for k in ("COND_OUT","COND_DEPS","COND_NAME","COND_SLOT")}}, open(os.path.join(os.environ["COND_OUT"], "seen.json"), "w"))' """


def real_children(chk, n):
    rng = chk.rng
    for _ in range(n):
        args = [rng.choice(["a", "b c", 3, True]) for _ in range(rng.randint(0, 2))]
        opts = {k: rng.choice(["v", 2, False]) for k in rng.sample(["k", "n"], rng.randint(0, 2))}
        files = {
            "COND": 'run_experiment(name="e", run="true")\nrun_command(name="g0", run="true")\ngroup(name="g", deps=[":g0"])\n',
            # two dependencies with the same NAME in different packages: both directories, in declared order
            "left/COND": 'run_command(name="gen", run="true")\n',
            "right/COND": 'run_command(name="gen", run="true")\n',
            "p/q/COND": 'run_command(name="c", run=%r, args=%r, options=%r, deps=["//left:gen", "//:e", "//:g", "//:g0", "//right:gen"])\n' % (CHILD.strip(), args, opts),
        }
        root = implrun.make_project(files)
        r = implrun.run_cond(["run", "//p/q:c"], os.path.join(root, "p"), timeout=30)
        chk.coverage["evaluations"] += 1
        seen_path = os.path.join(root, "cond-out", "p", "q", "c.task", "seen.json")
        if r.code != 0 or not os.path.exists(seen_path):
            chk.violation("impl-violation", "real run failed: %r" % (r,), {"input": {"files": files}, "impl_observation": repr(r)}, match_key={"real": "run-failed"}, size=1)
            continue
        seen = json.load(open(seen_path, encoding="utf-8"))
        vers = [d for d in os.listdir(os.path.join(root, "cond-out")) if d.startswith("e.task.")]
        want_deps = ":".join([os.path.join(root, "cond-out", "left", "gen.task"), os.path.join(root, "cond-out", vers[0]), os.path.join(root, "cond-out", "g0.task"),
                              os.path.join(root, "cond-out", "right", "gen.task")]) if len(vers) == 1 else None
        # bash splits the unquoted command line into words
        want_argv = []
        for a in args:
            want_argv += render(a).split()
        want_argv += ["--%s=%s" % (k, render(v)) for k, v in opts.items()]
        ok = (seen["argv"] == want_argv and os.path.realpath(seen["cwd"]) == os.path.realpath(os.path.join(root, "p", "q"))
              and seen["env"]["COND_NAME"] == "c" and seen["env"]["COND_OUT"] == os.path.join(root, "cond-out", "p", "q", "c.task")
              and seen["env"]["COND_DEPS"] == want_deps and seen["env"]["COND_SLOT"] is None)
        if not ok:
            chk.violation("impl-violation", "a real child saw %r, expected argv %r cwd p/q COND_DEPS %r" % (seen, want_argv, want_deps),
                          {"input": {"files": files}, "impl_observation": seen}, match_key={"real": "child-view"}, size=1)
        else:
            chk.coverage["traces_validated_against_impl"] += 1


def included_args_and_options_are_per_cond_file(chk):
    """"run, then args, then --key=value options in declared order" -- declared by the task's OWN COND file: two packages
    include the same file and each extends the included argument list / option dict in place for its own experiment.  Run
    through one target (both listing orders) each experiment must be started with exactly what its COND file, evaluated on
    its own, declares, and args.json / options.json must say the same.  (Seed C07/k: the include cache handed every COND
    file the same objects; the records are serialised when the plan is built, so each task got the other package's values.)"""
    files = {"common.cond": 'BASE_ARGS = ["input.csv"]\nBASE_OPTIONS = {"threads": 4}\n',
             "sysA/COND": 'include("//common.cond")\nBASE_ARGS.append("A")\nBASE_OPTIONS["system"] = "A"\nrun_experiment(name="bench", run="echo", args=BASE_ARGS, options=BASE_OPTIONS)\n',
             "sysB/COND": 'include("../common.cond")\nBASE_ARGS.extend(["B", "B2"])\nBASE_OPTIONS["cache_mb"] = 64\nBASE_OPTIONS["system"] = "B"\nrun_experiment(name="bench", run="echo", args=BASE_ARGS, options=BASE_OPTIONS)\n',
             "COND": 'group(name="ab", deps=["//sysA:bench", "//sysB:bench"])\ngroup(name="ba", deps=["//sysB:bench", "//sysA:bench"])\n'}
    want = {"sysA": ("input.csv A --threads=4 --system=A\n", ["input.csv", "A"], {"threads": 4, "system": "A"}),
            "sysB": ("input.csv B B2 --threads=4 --cache_mb=64 --system=B\n", ["input.csv", "B", "B2"], {"threads": 4, "cache_mb": 64, "system": "B"})}
    for target in ("ab", "ba"):
        root = implrun.make_project(files)
        r = implrun.run_cond(["run", "//:" + target], root, timeout=60)
        chk.coverage["evaluations"] += 1
        chk.count("real", "included args/options")
        problems = []
        if r.code != 0:
            problems.append("`cond run //:%s` exited %s: %s" % (target, r.code, implrun.strip_ansi(r.out + r.err).strip()[-200:]))
        for pkg, (line, args, opts) in want.items():
            d = os.path.join(root, "cond-out", pkg)
            vs = [x for x in (os.listdir(d) if os.path.isdir(d) else []) if x.startswith("bench.task.")]
            if len(vs) != 1:
                problems.append("//%s:bench has %d output directories" % (pkg, len(vs)))
                continue
            rd = lambda n: open(os.path.join(d, vs[0], n), encoding="utf-8").read() if os.path.exists(os.path.join(d, vs[0], n)) else None  # noqa: E731
            got = rd("stdout.log")
            if got != line:
                problems.append("//%s:bench was started with the words %r, its COND file declares %r" % (pkg, got, line))
            try:
                ja, jo = json.loads(rd("args.json") or "null"), json.loads(rd("options.json") or "null")
            except ValueError:
                ja, jo = "unreadable", "unreadable"
            if (ja, jo) != (args, opts):
                problems.append("//%s:bench: args.json / options.json hold %r / %r, declared %r / %r" % (pkg, ja, jo, args, opts))
        for msg in problems[:2]:
            chk.violation("impl-violation", "two packages extend included args / options in place, `cond run //:%s`: %s" % (target, msg),
                          {"input": {"part": "included-args", "files": files, "target": target}, "oracle_verdict": msg}, match_key={"real": "included-args"}, size=3)
        if not problems:
            chk.coverage["traces_validated_against_impl"] += 1


def names_differing_in_case(chk):
    """Task names are case sensitive (the grammar has both cases): `Prep` and `prep` are two experiments.  A recorded version
    of one must not stand in for the other -- the dependent of the one that never ran is handed a directory that exists and
    that the dependency wrote in THIS invocation.  Two invocations: `cond run //:Prep`, then `cond run //:use` (depends on
    //:prep).  (Seed C07/i: the per-task index queries compared names without regard to case.)"""
    files = {"COND": 'run_experiment(name="Prep", run="echo big > $COND_OUT/f")\n'
                     'run_experiment(name="prep", run="echo small > $COND_OUT/f")\n'
                     'run_command(name="use", run="echo $COND_DEPS > $COND_OUT/deps; cat $COND_DEPS/f > $COND_OUT/got", deps=[":prep"])\n'}
    root = implrun.make_project(files)
    r1 = implrun.run_cond(["run", "//:Prep"], root, timeout=30)
    w1 = implrun.run_cond(["where", "//:prep"], root, timeout=30)
    r2 = implrun.run_cond(["run", "//:use"], root, timeout=30)
    chk.coverage["evaluations"] += 3
    co = os.path.join(root, "cond-out")
    rows = implrun.index_rows(root)
    problems = []
    if r1.code != 0:
        problems.append("harness: cond run //:Prep failed: %r" % (r1,))
    else:
        if w1.code == 0 and w1.out.strip():
            problems.append("`cond where //:prep` reports %r although //:prep has never run" % w1.out.strip())
        lower = [d for d in (os.listdir(co) if os.path.isdir(co) else []) if d.startswith("prep.task.")]
        deps_file = os.path.join(co, "use.task", "deps")
        seen = open(deps_file, encoding="utf-8").read().strip() if os.path.exists(deps_file) else None
        got = os.path.join(co, "use.task", "got")
        if r2.code != 0:
            problems.append("cond run //:use exited %s: %s" % (r2.code, implrun.strip_ansi(r2.err)[-200:]))
        if seen is None or not os.path.isdir(seen):
            problems.append("//:use got COND_DEPS=%r, which is not an existing directory" % (seen,))
        elif os.path.basename(seen) not in lower or not [1 for tid, ts, _h, _u in rows if tid == "//:prep" and os.path.basename(seen) == "prep.task.%d" % ts]:
            problems.append("//:use got COND_DEPS=%r, which is not the recorded output of //:prep (rows %r)" % (seen, [(a, b) for a, b, _c, _d in rows]))
        elif not os.path.exists(got) or open(got, encoding="utf-8").read().strip() != "small":
            problems.append("//:use read %r from its dependency instead of what //:prep writes" % (open(got, encoding="utf-8").read().strip() if os.path.exists(got) else None))
    for msg in problems:
        chk.violation("impl-violation", "experiments named Prep and prep, `cond run //:Prep` then `cond run //:use` (deps=[':prep']): %s" % msg,
                      {"input": {"files": files, "commands": [["run", "//:Prep"], ["where", "//:prep"], ["run", "//:use"]]},
                       "impl_observation": {"rows": [list(r) for r in rows], "cond_out": sorted(os.listdir(co)) if os.path.isdir(co) else None}, "oracle_verdict": msg},
                      match_key={"real": "names-differing-in-case"}, size=2)
    if not problems:
        chk.coverage["traces_validated_against_impl"] += 1


def run(tier, seed, replay=None):
    chk = Check("C07", tier, seed)
    chk.build_proofs(MODEL_TARGETS + ["Model/Env.vo"])
    if replay is not None and "case" in replay.get("input", {}):
        from sched_engine import replay_case

        replay_case(chk, replay, ["C07"])
        return chk.finish()
    chk.assumptions = [
        "the absolute path of the project root contains no ':' -- COND_DEPS joins the directories with ':' (config.DEPS_ENV_PATH_SEPARATOR) and "
        "get_deps_paths() splits at every ':', so a root such as /data/a:b makes the library report more, shorter paths than were listed; task, package "
        "and version names cannot contain ':', so only the root can introduce one; the property quantifies over graphs, task kinds, nesting, args/options "
        "and cache states, not over root paths (Props/C07.v states the round trip under exactly this side condition)",
        "in_output_dir(p) is COND_OUT/p for a relative, normalised p: pathlib's `/` returns p itself for an absolute p and drops '.', '//' and a trailing '/' (the model concatenates)",
        "the command is handed to `bash -c` as ONE unquoted string (run, then args, then --key=value options): an argument containing shell syntax ('#', ';', a newline, quotes) is "
        "interpreted by bash -- C07_cmdline is about that string, not about the argv the command finally receives; the real children use arguments without shell syntax",
        "the environment inherited from the caller contains nothing that changes how bash starts (BASH_ENV, exported shell functions): it is passed through unchanged, "
        "and BASH_ENV pointing at a script that changes directory or COND_OUT would break the contract",
        "Model/Env.v working_dir, cond_name, lib_get_output_path, lib_in_output_dir are checked against the implementation by the correspondence part only; no theorem is stated about them",
    ]
    chk.coverage["rule"] = ("(a) scheduling cases (corpus, diamonds in both listing orders, seeded random DAGs over four task kinds in nested packages, cached experiments, --again, "
                            "jobs 1-4): every spawn's argv/cwd/env checked, dependency snapshot compared with the planner model; (b) generated run/args/options: command line vs "
                            "Model/Env.v and an independent rendering; (c) support library under generated COND_DEPS/COND_OUT; (d) real bash children report what they receive; "
                            "non-trivial = at least 3 tasks / at least one arg or option / at least one dependency path")
    # D3 corpus: the empty COND_DEPS
    cases = gen_for("C07", chk, tier)
    # a nested invocation: cond itself runs inside a task, so COND_* are already set in its environment
    inherited = {"COND_OUT": "/nonexistent/outer.task", "COND_DEPS": "/nonexistent/x.task:/nonexistent/y.task", "COND_NAME": "outer", "COND_SLOT": "7"}
    saved = {k: os.environ.get(k) for k in inherited}
    os.environ.update(inherited)
    try:
        run_cases(chk, cases[: len(cases) // 3], ["C07"])
    finally:
        for k, v in saved.items():
            if v is None:
                os.environ.pop(k, None)
            else:
                os.environ[k] = v
    run_cases(chk, cases[len(cases) // 3:], ["C07"])
    n = 300 if tier == "quick" else 3000
    cc, cw = cmdline_cases(chk, n)
    lc, lw = lib_cases(chk, n)
    chk.coverage["distinct_nontrivial"] += len({c for c in cc if "AStr" in c or "ABool" in c}) + len({c for c in lc if not c.startswith("([], ")})
    if chk.coq.model_ok:
        compare_env_model(chk, cc, cw, lc, lw)
    real_children(chk, 4 if tier == "quick" else 40)
    names_differing_in_case(chk)
    included_args_and_options_are_per_cond_file(chk)
    if tier == "thorough":
        chk.run_coqchk()
    return chk.finish()
