"""entry point: run_check.py Cxx [--tier T] [--replay file]"""
import argparse
import importlib
import json
import os
import sys

sys.path.insert(0, os.path.dirname(os.path.abspath(__file__)))


def main():
    ap = argparse.ArgumentParser()
    ap.add_argument("prop")
    ap.add_argument("--tier", default=os.environ.get("VERIF_TIER", "quick"), choices=["quick", "thorough"])
    ap.add_argument("--replay", default=None)
    args = ap.parse_args()
    seed = int(os.environ.get("VERIF_SEED", "1") or "1")
    mod = importlib.import_module(args.prop.lower())
    replay = None
    if args.replay:
        replay = json.load(open(args.replay, encoding="utf-8"))
    rc = mod.run(args.tier, seed, replay=replay)
    sys.stdout.flush()
    sys.exit(rc)


if __name__ == "__main__":
    main()
