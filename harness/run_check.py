"""entry point: run_check.py Cxx [--tier T] [--replay file]"""
import argparse
import importlib
import json
import os
import sys

sys.path.insert(0, os.path.dirname(os.path.abspath(__file__)))


def main():
    ap = argparse.ArgumentParser()
    ap.add_argument("prop")
    ap.add_argument("--tier", default=os.environ.get("VERIF_TIER", "quick"), choices=["quick", "thorough"])
    ap.add_argument("--replay", default=None)
    args = ap.parse_args()
    seed = int(os.environ.get("VERIF_SEED", "1") or "1")
    mod = importlib.import_module(args.prop.lower())
    replay = None
    if args.replay:
        replay = json.load(open(args.replay, encoding="utf-8"))
    try:
        rc = mod.run(args.tier, seed, replay=replay)
    except SystemExit:
        raise
    except BaseException as e:  # pylint: disable=broad-except
        # The check could not be completed: code of geoffxy/conductor that the harness drives raised something the
        # harness does not know how to judge (or the harness itself no longer fits the code).  The property is then no
        # longer shown to hold, which is reported as a violation without a failing input.
        import traceback

        tb = traceback.format_exc()
        sys.stderr.write(tb)
        from common import Check

        chk = Check(args.prop, args.tier, seed)
        chk.coverage["rule"] = "the check aborted before it could finish"
        chk.violation("check-aborted", "the check could not be completed (%s: %s); the property is no longer shown to hold" % (type(e).__name__, str(e)[:200]),
                      {"theorem_or_tie": "harness/%s.py (correspondence / oracle run)" % args.prop.lower(), "traceback": tb[-4000:]}, found_input=False)
        rc = chk.finish()
    sys.stdout.flush()
    sys.exit(rc)


if __name__ == "__main__":
    main()
