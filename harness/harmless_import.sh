#!/bin/bash
# harmless_import.sh C04 /tmp/wt4-C04 [extra checks...] -> harmless/C04/{1,2,3}/ + meta.json
cd "$(dirname "$0")/.."
p=$1; wt=$2; shift; shift
for v in 1 2 3; do
  [ -d "$wt/harmless/$v" ] || continue
  mkdir -p harmless/$p/$v
  cp "$wt/harmless/$v/patch.diff" "$wt/harmless/$v/README.md" harmless/$p/$v/ 2>/dev/null
  /venv/bin/python harness/harmless_eval.py $p harmless/$p/$v $p "$@" 2>&1 | tail -1
done
