"""C12 -- restore is all-or-nothing and never overwrites.

proofs : coq/Props/C12.v about coq/Model/Archive.v (restore as a list of atomic steps; staged
         content, environment faults and kill point universally quantified).
tie    : real archives made by `cond archive` from real `cond run` histories, mutated one fault at
         a time (member dropped, index dropped / corrupt / wrong format / unparsable task name,
         truncated at sampled offsets, version already recorded, destination pre-created as
         directory or file, member replaced by a file, archive path not a file, garbage, stale
         staging directory, copytree failing midway) and restored with the real `cond restore`;
         a line-level crash injector (sys.settrace in the forked child, os._exit at the k-th line
         event of cli/restore.py and execution/version_index.py) and a crash inside copytree.
         Rows and tree hashes before/after, exit status; the model's restore on the same staged
         content must end in the same state, every crash state must be one of the model's.
oracle : failure or kill => recorded versions as before (or, for a kill after the commit,
         exactly the completed restore); existing version directories never change; success =>
         every staged row recorded with its directory.
"""
import os
import shutil
import sqlite3
import subprocess

import archive_util as au
import implrun
from common import Check, clist, copt, new_dir, pack, run_packed_cases, ser_bool, setup_impl_path

FAULTS = ["none", "drop_member", "drop_index", "truncate", "truncate", "dup_row", "dup_row", "dup_row_nodir", "precreate_dest",
          "precreate_file", "member_is_file", "not_a_file", "missing_file", "garbage", "bad_format", "corrupt_index",
          "bad_task_name", "stale_staging", "stale_staging_drop_index", "stale_staging_contaminate", "empty_index", "copy_fail",
          "copy_crash", "all_recorded"]
MUST_FAIL = {"drop_member", "drop_index", "stale_staging_drop_index", "dup_row", "dup_row_nodir", "precreate_dest", "precreate_file", "member_is_file",
             "not_a_file", "missing_file", "garbage", "bad_format", "corrupt_index", "bad_task_name", "copy_fail", "all_recorded"}


def gen_job(rng, faults=None, sweep=None):
    spec = au.gen_spec(rng, rich=rng.random() < 0.4, git=rng.random() < 0.15)
    fl = []
    for f in (faults if faults is not None else rng.sample(FAULTS, 6)):
        fl.append({"fault": f, "pick": rng.random(), "frac": rng.random(), "latest": rng.random() < 0.3})
    return {"spec": spec, "faults": fl, "sweep": sweep, "seed": rng.getrandbits(32)}


def pick(items, p):
    """first / last / something in between"""
    if not items:
        return None
    return items[min(len(items) - 1, int(p * len(items) * 1.2))] if p < 0.8 else items[-1]


def apply_fault(f, root, q, apath, rows, ids):
    """mutate the archive and/or the target; returns (archive path, pre hook, fail_at, note)"""
    kind = f["fault"]
    keys = [(r[0], r[1]) for r in rows]
    out = os.path.join(os.path.dirname(q), "mutated.tar.gz")
    pre, note = None, None
    if kind in ("none", "stale_staging", "stale_staging_contaminate", "copy_fail", "copy_crash"):
        au.delete_versions(q, keys)
        shutil.copy(apath, out)
        if kind == "stale_staging_contaminate":
            # a killed restore of another archive of the same version left different content behind
            st = os.path.join(q, au.OUT, au.STAGING)
            shutil.copytree(au.unpack(apath), st, symlinks=True, dirs_exist_ok=True)
            k = pick(keys, f["pick"])
            with open(os.path.join(st, au.vdir_rel(*k), "stale-extra.txt"), "w") as fh:
                fh.write("from the killed restore")
            note = k
        if kind == "stale_staging":
            st = os.path.join(q, au.OUT, au.STAGING)
            shutil.copytree(au.unpack(apath), st, symlinks=True, dirs_exist_ok=True)
            with open(os.path.join(st, "junk"), "w") as fh:
                fh.write("left by a killed restore")
            conn = sqlite3.connect(os.path.join(st, au.AINDEX))
            conn.execute("INSERT INTO version_index VALUES ('//:stale', 5, NULL, 0)")
            conn.commit()
            conn.close()
            os.makedirs(os.path.join(st, "stale.task.5"))
        if kind in ("copy_fail", "copy_crash"):
            j = min(len(rows) - 1, int(f["pick"] * len(rows)))
            pre = au.copy_fault_pre(j, kind == "copy_crash")
            note = j
    elif kind == "all_recorded":
        shutil.copy(apath, out)          # the source project itself: everything is a duplicate
    elif kind in ("dup_row", "dup_row_nodir"):
        keep = pick(keys, f["pick"])
        au.delete_versions(q, [k for k in keys if k != keep])
        if kind == "dup_row_nodir":
            shutil.rmtree(os.path.join(q, au.OUT, au.vdir_rel(*keep)))
        shutil.copy(apath, out)
        note = keep
    elif kind in ("precreate_dest", "precreate_file"):
        au.delete_versions(q, keys)
        k = pick(keys, f["pick"])
        dest = os.path.join(q, au.OUT, au.vdir_rel(*k))
        os.makedirs(os.path.dirname(dest), exist_ok=True)
        if kind == "precreate_dest":
            os.makedirs(dest)
            with open(os.path.join(dest, "precious.txt"), "w") as fh:
                fh.write("do not touch")
        else:
            with open(dest, "w") as fh:
                fh.write("a file in the way")
        shutil.copy(apath, out)
        note = k
    elif kind == "not_a_file":
        au.delete_versions(q, keys)
        os.makedirs(out)
    elif kind == "missing_file":
        au.delete_versions(q, keys)
    elif kind == "garbage":
        au.delete_versions(q, keys)
        with open(out, "wb") as fh:
            fh.write(bytes((i * 37 + 11) % 256 for i in range(3000)))
    elif kind == "truncate":
        au.delete_versions(q, keys)
        data = open(apath, "rb").read()
        cut = max(1, min(len(data) - 1, int(f["frac"] * len(data))))
        if f["frac"] > 0.93:
            cut = len(data) - 1 - int((1 - f["frac"]) * 100)
        with open(out, "wb") as fh:
            fh.write(data[:cut])
        note = "%d of %d bytes" % (cut, len(data))
    else:
        au.delete_versions(q, keys)
        d = au.unpack(apath)
        ip = os.path.join(d, au.AINDEX)
        newrows = None
        if kind == "drop_member":
            k = pick(keys, f["pick"])
            shutil.rmtree(os.path.join(d, au.vdir_rel(*k)))
            note = k
        elif kind == "member_is_file":
            k = pick(keys, f["pick"])
            p = os.path.join(d, au.vdir_rel(*k))
            shutil.rmtree(p)
            with open(p, "w") as fh:
                fh.write("not a directory")
            note = k
        elif kind in ("drop_index", "stale_staging_drop_index"):
            newrows = rows
            os.unlink(ip)
            if kind == "stale_staging_drop_index":
                st = os.path.join(q, au.OUT, au.STAGING)
                shutil.copytree(au.unpack(apath), st, symlinks=True, dirs_exist_ok=True)
        elif kind == "bad_format":
            conn = sqlite3.connect(ip)
            conn.execute("PRAGMA user_version = 7")
            conn.commit()
            conn.close()
            newrows = rows
        elif kind == "corrupt_index":
            newrows = rows
            with open(ip, "wb") as fh:
                fh.write(b"this is not a database" * 50)
        elif kind == "bad_task_name":
            conn = sqlite3.connect(ip)
            nested = [k for k in keys if not k[0].startswith("//:")]
            if nested and f["pick"] < 0.7:
                # a row whose string is outside the identifier grammar but LOOKS canonical and designates the directory of
                # an archived version: //p/q:n  ->  //p:q/n  (the name contains a slash)
                k = pick(nested, f["pick"] / 0.7)
                path, name = k[0][2:].rsplit(":", 1)
                head, _sep, last = path.rpartition("/")
                bad = "//%s:%s/%s" % (head, last, name)
                conn.execute("UPDATE version_index SET task_identifier = ? WHERE task_identifier = ? AND timestamp = ?", (bad, k[0], k[1]))
                note = (bad, k[1])
            else:
                conn.execute("INSERT INTO version_index VALUES (?, 7, NULL, 0)", (["not an identifier", "//a b:c", "//p:na me", "//p:n\n", "//:\u00e9"][int(f["pick"] * 1000) % 5],))
            conn.commit()
            conn.close()
        elif kind == "empty_index":
            conn = sqlite3.connect(ip)
            conn.execute("DELETE FROM version_index")
            conn.commit()
            conn.close()
            newrows = []
        au.repack(d, out, rows=newrows)
    return out, pre, note


def check_outcome(kind, code, before, after, snaps_b, snaps_a, xv, killed=False):
    """the property, on what the real restore did"""
    problems = []
    staged = xv["index"] or []
    rows_b = sorted(before["rows"], key=repr)
    rows_a = sorted(after["rows"], key=repr)
    for rel, s in snaps_b.items():
        if snaps_a.get(rel) != s:
            problems.append("the existing version directory %s was modified or removed" % rel)
    complete = sorted(before["rows"] + staged, key=repr)
    has_all = all(au.vdir_rel(r[0], r[1]) in snaps_a for r in staged)
    if killed:
        if rows_a != rows_b and not (rows_a == complete and has_all):
            problems.append("killed restore left rows %r: neither the previous rows %r nor the complete restore" % (rows_a, rows_b))
    elif code != 0:
        if rows_a != rows_b:
            problems.append("restore failed (exit %d) but the recorded versions changed: %r -> %r" % (code, rows_b, rows_a))
    else:
        if kind in MUST_FAIL or not xv["file"] or not xv["ok"] or xv["index"] is None or xv["load_fails"]:
            problems.append("restore reported success on an archive that cannot be restored (%s)" % kind)
        if rows_a != complete:
            problems.append("restore reported success but rows %r are not previous rows + archive rows %r" % (rows_a, complete))
        for r in staged:
            if au.vdir_rel(r[0], r[1]) not in snaps_a:
                problems.append("restore reported success but %s@%d has no directory" % (r[0], r[1]))
            elif after["dirs"].get((r[0], r[1])) != xv["dirs"].get((r[0], r[1])):
                problems.append("restore reported success but the tree of %s@%d is not the archived one" % (r[0], r[1]))
    return problems


def make_source(spec, latest):
    root, log = au.build_project(spec)
    apath = os.path.join(root, "arch", "src.tar.gz")
    ra = implrun.run_cond(["archive", "-o", apath] + (["--latest"] if latest else []), root)
    return root, log, apath, ra


def fault_job(job):
    ids = au.ContentIds()
    out = {"faults": [], "sweeps": [], "ok": True}
    srcs = {}
    for f in job["faults"]:
        lt = f["latest"]
        if lt not in srcs:
            srcs[lt] = make_source(job["spec"], lt)
        root, _log, apath, ra = srcs[lt]
        if ra.code != 0 or not os.path.exists(apath):
            out["ok"] = False
            continue
        rows = au.extraction_view(apath, ids)["index"]
        q = au.clone_project(root, "q")
        shutil.rmtree(os.path.join(q, "arch"), ignore_errors=True)
        apath2, pre, note = apply_fault(f, root, q, apath, rows, ids)
        before = au.observe(q, ids)
        snaps_b = au.version_snaps(q)
        stale = os.path.join(q, au.OUT, au.STAGING)
        xv = au.extraction_view(apath2, ids)                  # the archive's own content
        xv_stale = au.extraction_view(apath2, ids, stale=stale) if os.path.isdir(stale) else None
        rr = implrun.run_cond(["restore", apath2], q, pre=pre)
        after = au.observe(q, ids)
        snaps_a = au.version_snaps(q)
        kind = f["fault"]
        problems = check_outcome(kind, rr.code, before, after, snaps_b, snaps_a, xv, killed=(kind == "copy_crash"))
        fail_at, partial = None, None
        if xv["load_fails"]:
            fail_at = 3
        if kind == "bad_task_name":
            fail_at = 4 + len(xv["index"])
        if kind in ("copy_fail", "copy_crash"):
            fail_at = 4 + len(rows) + 1 + 3 * note + 1
            partial = after["dirs"].get((rows[note][0], rows[note][1]))
        out["faults"].append({"fault": f, "note": note, "exit": rr.code, "err": implrun.strip_ansi(rr.err).strip()[-300:],
                              "before": before, "after": after, "x": xv, "x_stale": xv_stale, "fail_at": fail_at, "partial": partial, "problems": problems})
        shutil.rmtree(os.path.dirname(q), ignore_errors=True)
    if job.get("sweep"):
        lt = False
        if lt not in srcs:
            srcs[lt] = make_source(job["spec"], lt)
        root, _log, apath, ra = srcs[lt]
        if ra.code == 0:
            out["sweeps"].append(sweep(job, root, apath, ids))
    for root, _l, _a, _r in srcs.values():
        shutil.rmtree(os.path.dirname(root), ignore_errors=True)
    return out


def sweep(job, root, apath, ids):
    """kill restore at the k-th traced line, for the chosen k"""
    import random

    rng = random.Random(job["seed"])
    mode = job["sweep"]["mode"]
    rows = au.extraction_view(apath, ids)["index"]
    keys = [(r[0], r[1]) for r in rows]
    base = au.clone_project(root, "base")
    shutil.rmtree(os.path.join(base, "arch"), ignore_errors=True)
    if job["sweep"]["target"] == "dup" and len(keys) >= 2:
        au.delete_versions(base, keys[:-1])        # the last row is already recorded: fails after the copies
    else:
        au.delete_versions(base, keys)
    before = au.observe(base, ids)
    snaps_b = au.version_snaps(base)
    xv = au.extraction_view(apath, ids)
    # counting run
    q = au.clone_project(base, "cnt")
    logp = os.path.join(os.path.dirname(q), "lines.log")
    r0 = implrun.run_cond(["restore", apath], q, pre=au.crash_pre(None, logp))
    lines = open(logp).read().split()
    final = au.observe(q, ids)
    shutil.rmtree(os.path.dirname(q), ignore_errors=True)
    total = len(lines)
    first_main = next((i for i, ln in enumerate(lines) if ln.startswith("restore.py:") and i > 0 and lines[i - 1].startswith("version_index.py:")), 0)
    if mode == "full":
        ks = list(range(1, total + 1))
    else:
        region = list(range(max(1, first_main - 2), total + 1))
        ks = sorted(set(rng.sample(region, min(len(region), job["sweep"]["n"])) + [total, total - 1, total - 2]))
    obs = []
    problems = []
    for k in ks:
        q = au.clone_project(base, "k")
        implrun.run_cond(["restore", apath], q, pre=au.crash_pre(k))
        after = au.observe(q, ids)
        snaps_a = au.version_snaps(q)
        for what in check_outcome("crash", 137, before, after, snaps_b, snaps_a, xv, killed=True):
            problems.append((k, lines[k - 1] if k <= total else "?", what))
        obs.append((k, lines[k - 1] if k <= total else "?", after))
        shutil.rmtree(os.path.dirname(q), ignore_errors=True)
    # a GRACEFUL kill at the same places (SIGTERM / SIGINT delivered to the process itself; Conductor's handler decides): a restore
    # that then ends non-zero must have left the recorded versions as they were, one that ends with status 0 must be complete
    import signal as _signal
    from common import SRC as _SRC

    commit_idx = None
    try:
        src_lines = open(os.path.join(_SRC, "conductor", "cli", "restore.py"), encoding="utf-8").read().splitlines()
        commit_nos = [i + 1 for i, t in enumerate(src_lines) if ".commit_changes(" in t]
        if len(commit_nos) == 1 and ("restore.py:%d" % commit_nos[0]) in lines:
            commit_idx = lines.index("restore.py:%d" % commit_nos[0])
    except OSError:
        pass
    for n_, k in enumerate(ks[::3] if mode != "full" else ks[::7]):
        sg = (_signal.SIGTERM, _signal.SIGINT)[n_ % 2]
        q = au.clone_project(base, "s")
        rr = implrun.run_cond(["restore", apath], q, pre=au.crash_pre(k, None, sg))
        after = au.observe(q, ids)
        snaps_a = au.version_snaps(q)
        # a signal that arrives once the commit has begun cannot be undone any more (the restore is complete although it reports the
        # abort): judged like a kill.  One that arrives BEFORE the line that commits must leave nothing recorded when the command
        # then ends non-zero.  (The commit line is found in the sources of the tree under test; when it cannot be found the weaker
        # judgement is used throughout.)
        before_commit = commit_idx is not None and (k - 1) <= commit_idx
        for what in check_outcome("signal", rr.code if rr.code is not None else 1, before, after, snaps_b, snaps_a, xv, killed=not before_commit):
            problems.append((k, "%s delivered before %s" % (sg.name, lines[k - 1] if k <= total else "?"), what))
        shutil.rmtree(os.path.dirname(q), ignore_errors=True)
    shutil.rmtree(os.path.dirname(base), ignore_errors=True)
    return {"mode": mode, "target": job["sweep"]["target"], "total_lines": total, "ks": ks, "before": before, "x": xv,
            "final": final, "final_exit": r0.code, "obs": obs, "problems": problems}


# ------------------------------------------------------------------ model cases
def cproj_of(o):
    return au.cproj(o["rows"], o["dirs"], o["stage"])


def cx_of(xv):
    return au.cx(xv["file"], xv["ok"], xv["index"] if xv["index"] is not None else None, xv["dirs"])


def cnat_opt(n):
    return "None" if n is None else "(Some %d%%nat)" % n


def cn_opt(n):
    return "None" if n is None else "(Some %d)" % n


def crash_code(o):
    return pack(au.ser_rows(o["rows"]) + au.ser_dirs(o["dirs"]) + ser_bool(o["stage"]))


def durability_assumption(chk):
    """The model's (and the theorems') view of the version index: a process that dies loses exactly its open
    transaction.  sqlite guarantees that only with an on-disk rollback journal (or WAL) and synchronous writes, so
    the connections the implementation opens are asked for their settings -- every way of opening an index."""
    import pathlib
    import sqlite3
    from common import new_dir, setup_impl_path

    setup_impl_path()
    from conductor.execution.version_index import VersionIndex

    d = new_dir("durab")
    found = {}
    real_connect = sqlite3.connect
    opened = []

    def spy(*a, **kw):
        c = real_connect(*a, **kw)
        opened.append(c)
        return c

    sqlite3.connect = spy
    try:
        p1 = pathlib.Path(d, "version_index.sqlite")
        vi = VersionIndex.create_or_load(p1)          # creates
        vi.commit_changes()
        del vi
        vi = VersionIndex.create_or_load(p1)          # loads
        p2 = pathlib.Path(d, "archive_index.sqlite")
        dest = VersionIndex.create_or_load(p2)        # the archive index
        try:
            vi.copy_entries_to(dest, None, False)
        except Exception:  # pylint: disable=broad-except
            pass
    finally:
        sqlite3.connect = real_connect
    for i, c in enumerate(opened):
        try:
            jm = c.execute("PRAGMA journal_mode").fetchone()[0].lower()
            sy = int(c.execute("PRAGMA synchronous").fetchone()[0])
        except sqlite3.Error as e:
            jm, sy = "closed (%s)" % e, 2
            continue
        found["connection %d" % i] = (jm, sy)
        chk.coverage["evaluations"] += 1
        if jm not in ("delete", "truncate", "persist", "wal") or sy == 0:
            chk.violation("impl-violation", "the version index is opened with journal_mode=%s synchronous=%s: after a kill in the middle of a transaction sqlite cannot roll the "
                          "file back, so recorded versions are not exactly those committed before (the crash model of this property assumes an on-disk journal)" % (jm, sy),
                          {"input": {"part": "durability"}, "impl_observation": found, "oracle_verdict": "journal_mode in delete/truncate/persist/wal and synchronous != OFF"},
                          match_key={"durability": jm}, size=1)
    chk.count("durability", "connections inspected", len(found))
    if not found:
        chk.violation("correspondence", "no sqlite connection of the version index could be inspected", {"theorem_or_tie": "durability assumption of the crash model"}, found_input=False)


def restore_into_an_old_format_index(chk):
    """All-or-nothing also when the restore is the FIRST command to open an index written by an older Conductor
    (format 1: no commit columns; upgraded in place by whichever command opens it first): a restore that cannot
    complete -- a listed directory is missing from the archive, a destination already exists, a duplicate row -- must
    leave exactly the versions that were recorded before (upgraded or not), each with its directory untouched; a
    restore that can complete adds exactly the archive's versions.  (Seed C12/i: the upgrade left the connection in
    autocommit mode, so the rows a failing restore had inserted could not be rolled back.)"""
    import hashlib

    src = implrun.make_project({"exp/COND": 'run_experiment(name="e1", run="echo 1 > $COND_OUT/r")\nrun_experiment(name="e2", run="echo 2 > $COND_OUT/r", deps=[":e1"])\n'}, name="src")
    r0 = implrun.run_cond(["run", "//exp:e2"], src)
    ra = implrun.run_cond(["archive", "-o", "a.tar.gz"], src)
    apath = os.path.join(src, "a.tar.gz")
    arows = [(r[0], r[1]) for r in au.project_rows(src)]
    if r0.code != 0 or ra.code != 0 or len(arows) != 2:
        chk.violation("correspondence", "harness: restore_into_an_old_format_index: set-up failed: %r %r %r" % (r0, ra, arows), {"theorem_or_tie": "scenario set-up"}, found_input=False)
        return
    d = au.unpack(apath)
    damaged = os.path.join(os.path.dirname(d), "damaged.tar.gz")
    shutil.rmtree(os.path.join(d, au.vdir_rel(*arows[1])))
    subprocess.run(["tar", "czf", damaged, "-C", d, au.AINDEX, au.vdir_rel(*arows[0])], check=True)

    def target(fmt, precreate=None, duplicate=False):
        q = implrun.make_project({"keep/COND": 'run_experiment(name="k", run="echo k > $COND_OUT/r")\n',
                                  "exp/COND": 'run_experiment(name="e1", run="echo 1 > $COND_OUT/r")\nrun_experiment(name="e2", run="echo 2 > $COND_OUT/r", deps=[":e1"])\n'}, name="tgt")
        rk = implrun.run_cond(["run", "//keep:k"], q)
        assert rk.code == 0, rk
        ip = os.path.join(q, au.OUT, au.INDEX)
        rows = [(r[0], r[1]) for r in au.raw_rows(ip)]
        if duplicate:                       # the last version of the archive is recorded here already (with its directory)
            rows.append(arows[1])
            os.makedirs(os.path.join(q, au.OUT, au.vdir_rel(*arows[1])))
        if precreate is not None:
            os.makedirs(os.path.join(q, au.OUT, au.vdir_rel(*precreate)))
            open(os.path.join(q, au.OUT, au.vdir_rel(*precreate), "precious.txt"), "w").write("mine")
        os.unlink(ip)
        conn = sqlite3.connect(ip)
        if fmt == 1:
            conn.execute("CREATE TABLE version_index (task_identifier TEXT NOT NULL, timestamp INTEGER NOT NULL, git_commit TEXT NOT NULL, PRIMARY KEY (task_identifier, timestamp))")
            conn.executemany("INSERT INTO version_index VALUES (?, ?, 'abc')", rows)
        else:
            conn.execute("CREATE TABLE version_index (task_identifier TEXT NOT NULL, timestamp INTEGER NOT NULL, git_commit_hash TEXT, has_uncommitted_changes INTEGER NOT NULL, PRIMARY KEY (task_identifier, timestamp))")
            conn.executemany("INSERT INTO version_index VALUES (?, ?, NULL, 0)", rows)
        conn.execute("PRAGMA user_version = %d" % fmt)
        conn.commit()
        conn.close()
        return q, rows

    def keys(q):
        conn = sqlite3.connect("file:%s?mode=ro" % os.path.join(q, au.OUT, au.INDEX), uri=True)
        try:
            return sorted(conn.execute("SELECT task_identifier, timestamp FROM version_index").fetchall())
        finally:
            conn.close()

    for fmt in (2, 1):
        for what, archive, kw, completes in (("a listed directory is missing from the archive", damaged, {}, False),
                                             ("the destination of the second version exists", apath, {"precreate": arows[1]}, False),
                                             ("the second version is recorded already", apath, {"duplicate": True}, False),
                                             ("nothing in the way", apath, {}, True)):
            q, rows = target(fmt, **kw)
            snap_b = implrun.tree_snapshot(os.path.join(q, au.OUT), skip=(au.INDEX, au.INDEX + ".v1.bak", au.STAGING))
            res = implrun.run_cond(["restore", archive], q)
            after = keys(q)
            snap_a = implrun.tree_snapshot(os.path.join(q, au.OUT), skip=(au.INDEX, au.INDEX + ".v1.bak", au.STAGING))
            snap_a = {k: v for k, v in snap_a.items() if not k.startswith(au.INDEX)}
            snap_b = {k: v for k, v in snap_b.items() if not k.startswith(au.INDEX)}
            chk.coverage["evaluations"] += 1
            chk.count("old-format-index", "format %d, %s" % (fmt, "completes" if completes else "fails"))
            msgs = []
            if completes:
                if res.code != 0 or after != sorted(rows + arows):
                    msgs.append("exit %s, recorded versions %r (wanted %r)" % (res.code, after, sorted(rows + arows)))
                elif any(not os.path.isdir(os.path.join(q, au.OUT, au.vdir_rel(*k))) for k in after):
                    msgs.append("a recorded version has no directory")
            else:
                if res.code == 0:
                    msgs.append("exit status 0")
                if after != sorted(rows):
                    msgs.append("the recorded versions were %r and are %r after the failed restore" % (sorted(rows), after))
                changed = sorted(k for k, v in snap_b.items() if snap_a.get(k) != v)
                if changed:
                    msgs.append("existing outputs were modified or removed: %r" % changed[:3])
            for m in msgs[:2]:
                chk.violation("impl-violation", "`cond restore` as the first command on a format-%d index, %s: %s" % (fmt, what, m),
                              {"input": {"part": "old-format-index", "format": fmt, "case": what}, "impl_observation": {"exit": res.code, "rows_before": rows, "rows_after": after,
                               "stderr": implrun.strip_ansi(res.err)[-300:]}, "oracle_verdict": m}, match_key={"part": "old-format-index"}, size=3)
            if not msgs:
                chk.coverage["traces_validated_against_impl"] += 1
            shutil.rmtree(os.path.dirname(q), ignore_errors=True)


def restore_of_a_large_archive(chk, n=300):
    """"A restore that reports success has recorded every version in the archive and each has its directory" -- also for an
    archive with more versions than any plausible internal batch size (300 versions of 3 tasks, built by hand in the
    format `cond archive` writes).  (Seed C12/k: rows were loaded in batches of 256 and the row that filled a batch was
    dropped -- restore exited 0 with every directory copied and one version unrecorded, to be deleted by the next gc.)"""
    base = new_dir("bigarch")
    stage = os.path.join(base, "x")
    os.makedirs(stage)
    rows = []
    for i in range(n):
        task = ("//big:t%d" % (i % 3)) if i % 2 else ("//big/deep:u%d" % (i % 3))
        rows.append((task, 1600000000 + i, None, 0))
        d = os.path.join(stage, au.vdir_rel(task, 1600000000 + i))
        os.makedirs(d)
        open(os.path.join(d, "r"), "w").write("%d\n" % i)
    conn = sqlite3.connect(os.path.join(stage, au.AINDEX))
    conn.execute("CREATE TABLE version_index (task_identifier TEXT NOT NULL, timestamp INTEGER NOT NULL, git_commit_hash TEXT, has_uncommitted_changes INTEGER NOT NULL, PRIMARY KEY (task_identifier, timestamp))")
    conn.executemany("INSERT INTO version_index VALUES (?, ?, ?, ?)", rows)
    conn.execute("PRAGMA user_version = 2")
    conn.commit()
    conn.close()
    apath = os.path.join(base, "big.tar.gz")
    au.repack(stage, apath, rows=rows)
    q = implrun.make_project({"big/COND": "".join('run_experiment(name="t%d", run="true")\n' % k for k in range(3)),
                              "big/deep/COND": "".join('run_experiment(name="u%d", run="true")\n' % k for k in range(3))}, name="bigtgt")
    res = implrun.run_cond(["restore", apath], q, timeout=300)
    got = sorted((r[0], r[1]) for r in au.project_rows(q))
    want = sorted((r[0], r[1]) for r in rows)
    chk.coverage["evaluations"] += 1
    chk.count("large-archive", "%d versions" % n)
    msg = None
    if res.code != 0:
        msg = "exit status %s: %s" % (res.code, implrun.strip_ansi(res.err).strip()[-200:])
    elif got != want:
        missing = [k for k in want if k not in got]
        msg = "reported success, but %d of the %d versions of the archive are not recorded (first: %r)" % (len(missing), n, missing[:2])
    else:
        nodir = [k for k in want if not os.path.isdir(os.path.join(q, au.OUT, au.vdir_rel(*k)))]
        if nodir:
            msg = "reported success, but %d recorded versions have no directory (first: %r)" % (len(nodir), nodir[:2])
    if msg:
        chk.violation("impl-violation", "`cond restore` of an archive with %d versions: %s" % (n, msg),
                      {"input": {"part": "large-archive", "versions": n}, "impl_observation": {"exit": res.code, "recorded": len(got)}, "oracle_verdict": msg}, match_key={"part": "large-archive"}, size=3)
    else:
        chk.coverage["traces_validated_against_impl"] += 1


def run(tier, seed, replay=None):
    chk = Check("C12", tier, seed)
    # (the stale-staging defect D18 found by this check is fixed in /repo by commit a192dfb; see known_findings.jsonl)
    chk.build_proofs(["Model/Archive.vo", "Lib/Cmp.vo"])
    setup_impl_path()
    new_dir("warm")

    if replay is not None and (replay.get("input") or {}).get("part") == "staging-collision":
        au.staging_collision(chk, "C12")
        return chk.finish()
    if replay is not None and (replay.get("input") or {}).get("kind") == "fault":
        jobs = [replay["input"]["job"]]
    elif replay is not None:
        print("replay: nothing to re-run (%s)" % replay.get("theorem_or_tie"))
        return chk.finish()
    else:
        durability_assumption(chk)
        restore_into_an_old_format_index(chk)
        restore_of_a_large_archive(chk, 300 if tier == "quick" else 1100)
        au.staging_collision(chk, "C12")     # D23: restore vs. a package named like its staging directory
        jobs = []
        # corpus: every fault once on a fixed-shape project, then random subsets
        jobs.append(gen_job(au.sub_rng(chk.rng), faults=FAULTS[:8], sweep={"mode": "sample", "n": 14, "target": "clean"}))
        jobs.append(gen_job(au.sub_rng(chk.rng), faults=FAULTS[8:16], sweep={"mode": "sample", "n": 14, "target": "dup"}))
        jobs.append(gen_job(au.sub_rng(chk.rng), faults=FAULTS[16:], sweep={"mode": "sample", "n": 14, "target": "clean"}))
        n = 11 if tier == "quick" else 130
        for i in range(n):
            sw = None
            if tier == "quick":
                sw = {"mode": "sample", "n": 10, "target": "dup" if i % 3 == 0 else "clean"} if i < 6 else None
            elif i < 18:
                sw = {"mode": "full", "target": "dup" if i % 3 == 0 else "clean"}
            elif i < 54:
                sw = {"mode": "sample", "n": 25, "target": "dup" if i % 2 == 0 else "clean"}
            jobs.append(gen_job(au.sub_rng(chk.rng), sweep=sw))
    results = au.run_jobs(fault_job, jobs)

    exprs, wants, desc = [], [], []
    lexprs, lwants, ldesc = [], [], []
    nontrivial = set()
    for job, res in zip(jobs, results):
        ntasks = len(job["spec"]["tasks"])
        for fr in res["faults"]:
            f = fr["fault"]
            kind = f["fault"]
            chk.coverage["evaluations"] += 1
            chk.count("fault", kind)
            chk.count("exit status", str(fr["exit"]))
            if len(fr["x"]["index"] or []) >= 2 or fr["before"]["rows"]:
                nontrivial.add(repr((job["spec"]["history"], f)))
            for what in fr["problems"]:
                chk.violation("impl-violation", "restore with fault %s (%r): %s" % (kind, fr["note"], what),
                              {"input": {"kind": "fault", "job": {"spec": job["spec"], "faults": [f], "sweep": None, "seed": job["seed"]}},
                               "impl_observation": {"exit": fr["exit"], "stderr": fr["err"], "rows_before": fr["before"]["rows"], "rows_after": fr["after"]["rows"]},
                               "oracle_verdict": what},
                              match_key={"fault": kind, "state": "stale-staging" if kind.startswith("stale_staging") else "plain"}, size=ntasks)
            a = fr["after"]
            if kind == "copy_crash":
                lexprs.append("case_crash %s %s %s %s %s" % (cnat_opt(fr["fail_at"]), cn_opt(fr["partial"]), cx_of(fr["x"]), cproj_of(fr["before"]), clist([str(crash_code(a))])))
                lwants.append([1])
                ldesc.append((kind, fr["note"], fr["err"]))
            else:
                w = pack(au.ser_after(fr["exit"] == 0, a["rows"], a["dirs"], a["stage"]))
                e = "case_restore %s %s %s %s" % (cnat_opt(fr["fail_at"]), cn_opt(fr["partial"]), cx_of(fr["x"]), cproj_of(fr["before"]))
                # (fr["x_stale"], what tar would produce on top of a killed restore's left-overs, is no longer an accepted
                # alternative: since the repair of D18 restore starts from an empty staging directory, and the model's
                # extraction is the archive's own content)
                exprs.append(e)
                wants.append(w)
                desc.append((kind, fr["note"], fr["exit"], fr["err"], job["spec"]["history"]))
            chk.sample({"fault": kind, "detail": fr["note"], "exit": fr["exit"], "stderr": fr["err"][-120:],
                        "rows_before": len(fr["before"]["rows"]), "rows_after": len(fr["after"]["rows"]), "archive_rows": len(fr["x"]["index"] or [])}) if kind in ("dup_row", "drop_member", "truncate", "precreate_dest") else None
        for sw in res["sweeps"]:
            chk.coverage["evaluations"] += len(sw["ks"])
            chk.count("crash sweeps", sw["mode"] + "/" + sw["target"])
            chk.count("crash points", "total", len(sw["ks"]))
            for k, where, _o in sw["obs"]:
                chk.count("crash file", where.split(":")[0])
            nontrivial.update(repr((job["spec"]["history"], "kill", k)) for k in sw["ks"])
            for k, where, what in sw["problems"]:
                chk.violation("impl-violation", "restore killed at traced line #%d (%s): %s" % (k, where, what),
                              {"input": {"kind": "fault", "job": {"spec": job["spec"], "faults": [], "sweep": {"mode": "full", "target": sw["target"]}, "seed": job["seed"]}},
                               "impl_observation": {"kill_point": k, "line": where}, "oracle_verdict": what},
                              match_key={"fault": "kill"}, size=ntasks)
            codes = [crash_code(o) for _k, _w, o in sw["obs"]] + [crash_code(sw["final"])]
            lexprs.append("case_crash None None %s %s %s" % (cx_of(sw["x"]), cproj_of(sw["before"]), clist([str(c) for c in codes])))
            lwants.append([1] * len(codes))
            ldesc.append(("kill sweep", sw["target"], [(k, w) for k, w, _o in sw["obs"]]))
            if sw["mode"] == "full":
                lexprs.append("case_crash_cover %s %s %s" % (cx_of(sw["x"]), cproj_of(sw["before"]), clist([str(c) for c in sorted(set(codes))])))
                lwants.append(None)     # all ones, length known only to the model
                ldesc.append(("kill sweep coverage", sw["target"], sw["total_lines"]))
    chk.coverage["distinct_nontrivial"] = len(nontrivial)
    chk.coverage["exhaustive"] = False
    chk.coverage["rule"] = (
        "real archives of generated projects (real `cond run` histories), one fault each out of %d kinds, restored by the real `cond restore` into a project that "
        "lacks / partly has / fully has the archived versions; kill sweeps over the traced lines of cli/restore.py and execution/version_index.py (thorough: every "
        "line of 18 scenarios); non-trivial = the archive lists >= 2 versions or the target already records versions; each kill point counts" % len(set(FAULTS))
    )

    if chk.coq.model_ok:
        agree = 0
        shard = 60
        se = [exprs[i:i + shard] for i in range(0, len(exprs), shard)]
        sw_ = [wants[i:i + shard] for i in range(0, len(wants), shard)]
        if se:
            for si, (ok, bad, raw) in enumerate(run_packed_cases(au.IMPORTS, au.DEFS, [clist(s) for s in se], sw_)):
                if not ok:
                    chk.violation("correspondence", "faults: model evaluation failed: %s" % raw[-300:], {"theorem_or_tie": "correspondence Model/Archive.v (restore under faults)", "coq_output": raw}, found_input=False)
                    continue
                agree += len(se[si]) - len(bad)
                for i in bad[:3]:
                    k = si * shard + i
                    chk.violation("correspondence", "restore under fault: Model/Archive.v and cli/restore.py end in different states: %r" % (desc[k],),
                                  {"theorem_or_tie": "correspondence Model/Archive.v vs conductor/cli/restore.py (faults)", "case": desc[k], "coq_case": exprs[k][:3000]}, found_input=False)
        # list-valued cases: one Coq file each group; `want` None = all ones of the model's own length
        if lexprs:
            defs = au.DEFS + "\nDefinition all_one (l : list N) : list N := map (fun v => if v =? 1 then 1 else 0) l.\n"
            got = []
            want = []
            for e, w in zip(lexprs, lwants):
                if w is None:
                    got.append("[N.of_nat (length (filter (fun v => negb (v =? 1)) (%s)))]" % e)
                    want.append([0])
                else:
                    got.append("[N.of_nat (length (filter (fun v => negb (v =? 1)) (%s))); N.of_nat (length (%s))]" % (e, e))
                    want.append([0, len(w)])
            groups = [list(range(i, min(i + 20, len(got)))) for i in range(0, len(got), 20)]
            res = run_packed_cases(au.IMPORTS, defs, ["(" + " ++ ".join(got[i] for i in gr) + ")" for gr in groups], [sum((want[i] for i in gr), []) for gr in groups])
            for gr, (ok, bad, raw) in zip(groups, res):
                if not ok:
                    chk.violation("correspondence", "kill sweeps: model evaluation failed: %s" % raw[-300:], {"theorem_or_tie": "correspondence Model/Archive.v (crash states)", "coq_output": raw}, found_input=False)
                    continue
                if bad:
                    # map flat positions back to cases
                    pos = 0
                    for i in gr:
                        span = len(want[i])
                        if any(pos <= b < pos + span for b in bad):
                            chk.violation("correspondence", "a state observed after killing the real restore is not a crash state of Model/Archive.v (or a model crash state was never observed): %r" % (ldesc[i],),
                                          {"theorem_or_tie": "correspondence Model/Archive.v vs conductor/cli/restore.py (crash states)", "case": ldesc[i], "coq_case": lexprs[i][:3000]}, found_input=False)
                        pos += span
                else:
                    agree += sum(len(lwants[i] or [1]) for i in gr)
        chk.coverage["traces_validated_against_impl"] = agree
        chk.coverage["disagreements_checked"] = len(exprs) + sum(len(w or [1]) for w in lwants)
    else:
        chk.violation("correspondence", "model does not build: " + chk.coq.log[-400:], {"theorem_or_tie": "build of Model/Archive.vo", "log": chk.coq.log[-3000:]}, found_input=False)
    if replay is not None:
        for res in results:
            for fr in res["faults"]:
                print("replay: fault=%s detail=%r exit=%r stderr=%r rows %r -> %r problems=%r" % (fr["fault"]["fault"], fr["note"], fr["exit"], fr["err"][-200:], fr["before"]["rows"], fr["after"]["rows"], fr["problems"]))
            for sw in res["sweeps"]:
                print("replay: kill sweep over %d lines: problems=%r" % (len(sw["ks"]), sw["problems"][:5]))
    if tier == "thorough" and replay is None:
        chk.run_coqchk()
    if os.environ.get("VERIF_DEBUG_ALL"):
        for v in chk.violations:
            print("  ?", v["kind"], v["summary"][:400])
    return chk.finish()
