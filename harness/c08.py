"""C08 -- every experiment execution gets a fresh, unique version directory.

proofs : coq/Props/C08.v (gen_version, the allocation loop, and the step-level model of
         run/restore/archive/gc in Model/Store.v; all clocks, all histories).
tie    : histories of real `cond run` / `restore` / `gc` / `archive` invocations (in-process,
         forked) with time.time patched inside version_index.py to follow generated clock
         sequences (same second, backward steps, jumps); successes, failures, kills, aborts,
         restores of archives with arbitrary timestamps.  After every command the index and
         cond-out are observed and compared with the model's state (packed channel), so the ids
         chosen by generate_new_output_version + the allocation loop are compared exactly.
oracle : independent of the model -- COND_OUT of every execution vs the listing of cond-out before
         the command, its content when the task starts, its id vs the rows recorded before,
         distinct ids / one execution per task per invocation, single writer of every recorded
         version, tree hashes of recorded versions across every command.
"""
import json
import os
import shutil

import implrun
import store_util as su
from common import Check, run_packed_cases

IMPORTS = "From Conductor Require Import Lib.Str Lib.Cmp Model.Store."
EPOCH = 1700000000


# ----------------------------------------------------------------------------- shapes
def shape_flat():
    T = su.Task
    return su.Shape([T("e1", 1, args=True, opts=True), T("e2", 2), T("e3", 3, opts=True),
                     T("all", 0, deps=["e1", "e2", "e3"], kind="group")], "flat")


def shape_chain():
    T = su.Task
    return su.Shape([T("e1", 1, args=True), T("e2", 2, deps=["e1"]), T("e3", 3, deps=["e2"], opts=True),
                     T("all", 0, deps=["e3"], kind="group")], "chain")


def shape_diamond():
    # the graph of D1: a -> [b, d], b -> [d]
    T = su.Task
    return su.Shape([T("d", 1, opts=True), T("b", 2, deps=["d"]), T("a", 3, deps=["b", "d"], args=True),
                     T("all", 0, deps=["a"], kind="group")], "diamond a->[b,d];b->[d]")


def shape_subdir():
    T = su.Task
    return su.Shape([T("e1", 1, args=True), T("e2", 2, deps=["e1"], path="sub", opts=True), T("e3", 3, path="sub"),
                     T("all", 0, deps=["e2", "e3", "e1"], kind="group")], "subdir")


def shape_tree():
    # execution order differs from allocation order: a -> [b, c], b -> [d]
    T = su.Task
    return su.Shape([T("d", 1), T("b", 2, deps=["d"], args=True), T("c", 3, opts=True), T("a", 4, deps=["b", "c"]),
                     T("all", 0, deps=["a"], kind="group")], "tree")


def shape_par():
    T = su.Task
    return su.Shape([T("e1", 1, args=True, par=True), T("e2", 2, par=True), T("e3", 3, opts=True, par=True), T("e4", 4),
                     T("all", 0, deps=["e1", "e2", "e3", "e4"], kind="group")], "parallelizable")


SHAPES = [shape_flat, shape_chain, shape_diamond, shape_subdir, shape_tree, shape_par]


# ----------------------------------------------------------------------------- histories
def corpus():
    t = EPOCH
    fl, ch, di = shape_flat().describe(), shape_chain().describe(), shape_diamond().describe()
    return [
        # D8: failed execution, then another invocation within the same second
        {"name": "fail-then-same-second", "shape": fl, "commands": [
            {"kind": "run", "root": "all", "again": False, "beh": {"e1": "fail"}, "clock": [t, t, t]},
            {"kind": "run", "root": "all", "again": False, "beh": {}, "clock": [t, t, t]}]},
        # D8: clock steps back behind the failed directory
        {"name": "fail-then-clock-back", "shape": fl, "commands": [
            {"kind": "run", "root": "e1", "again": False, "beh": {"e1": "faillate"}, "clock": [t + 50]},
            {"kind": "run", "root": "e1", "again": False, "beh": {}, "clock": [t + 10]},
            {"kind": "run", "root": "e1", "again": True, "beh": {}, "clock": [t + 10]}]},
        # several unrecorded directories in a row: the loop has to pass all of them
        {"name": "three-failures-stalled-clock", "shape": fl, "commands": [
            {"kind": "run", "root": "e2", "again": False, "beh": {"e2": "fail"}, "clock": [t]},
            {"kind": "run", "root": "e2", "again": False, "beh": {"e2": "kill"}, "clock": [t]},
            {"kind": "run", "root": "e2", "again": False, "beh": {"e2": "faillate"}, "clock": [t]},
            {"kind": "run", "root": "e2", "again": False, "beh": {}, "clock": [t]},
            {"kind": "gc"},
            {"kind": "run", "root": "e2", "again": True, "beh": {}, "clock": [t]}]},
        # D1: the diamond, twice, then --again
        {"name": "diamond", "shape": di, "commands": [
            {"kind": "run", "root": "a", "again": False, "beh": {}, "clock": [t, t, t, t]},
            {"kind": "run", "root": "a", "again": True, "beh": {}, "clock": [t, t + 1, t, t]},
            {"kind": "run", "root": "all", "again": True, "beh": {"b": "fail"}, "clock": [t - 100]}]},
        # restore of future / past / colliding timestamps
        {"name": "restore-future-and-collision", "shape": fl, "commands": [
            {"kind": "run", "root": "all", "again": False, "beh": {"e2": "fail"}, "clock": [t, t, t]},
            {"kind": "restore", "entries": [["e1", t + 5000], ["e3", t + 5000]]},
            {"kind": "run", "root": "all", "again": True, "beh": {}, "clock": [t + 1, t + 1, t + 1]},
            {"kind": "restore", "entries": [["e2", t + 1]]},
            {"kind": "restore", "entries": [["e1", t + 5000]]},
            {"kind": "archive"},
            {"kind": "gc"},
            {"kind": "run", "root": "e2", "again": True, "beh": {}, "clock": [5]}]},
        # abort in the middle of a chain, then the same second again
        {"name": "abort-then-rerun", "shape": ch, "commands": [
            {"kind": "run", "root": "all", "again": False, "beh": {"e2": "abort"}, "clock": [t, t, t]},
            {"kind": "run", "root": "all", "again": False, "beh": {}, "clock": [t, t, t]},
            {"kind": "gc"}]},
        # two slots
        {"name": "parallel", "shape": shape_par().describe(), "commands": [
            {"kind": "run", "root": "all", "again": False, "beh": {"e3": "fail"}, "clock": [t, t, t], "jobs": 2},
            {"kind": "run", "root": "all", "again": True, "beh": {}, "clock": [t - 1, t - 2, t - 3], "jobs": 3}]},
    ]


def random_history(rng, idx):
    shape = rng.choice(SHAPES)()
    exps = [t for t in shape.tasks if t.kind == "exp"]
    now = EPOCH + rng.randrange(0, 1000)
    unrec = []
    cmds = []
    for _ in range(rng.randrange(3, 8)):
        r = rng.random()
        if r < 0.72 or not cmds:
            beh = {}
            for t in exps:
                x = rng.random()
                if x < 0.30:
                    beh[t.name] = rng.choice(["fail", "faillate", "kill", "fail"])
                elif x < 0.34:
                    beh[t.name] = "abort"
            root = rng.choice(["all", "all", rng.choice(exps).name])
            mode = rng.random()
            if mode < 0.45:
                pass  # same second as the previous invocation
            elif mode < 0.70:
                now -= rng.randrange(1, 40)
            elif mode < 0.95:
                now += rng.randrange(1, 4)
            else:
                now += rng.randrange(100, 100000)
            clock = []
            c = now
            for _k in range(rng.randrange(1, 6)):
                clock.append(c)
                c += rng.choice([0, 0, 0, 1, -1, -3, 2])
            cmd = {"kind": "run", "root": root, "again": rng.random() < 0.6, "beh": beh, "clock": clock}
            if rng.random() < 0.2:
                cmd["jobs"] = rng.choice([2, 3])
                cmd["beh"] = {k: ("fail" if v == "abort" else v) for k, v in beh.items()}
            cmds.append(cmd)
            unrec.append(now)
        elif r < 0.86:
            flat = [t for t in exps if not t.path]
            ents = []
            for t in rng.sample(flat, rng.randrange(1, min(3, len(flat)) + 1)):
                ts = rng.choice([now + rng.randrange(-3, 6), now + rng.randrange(50, 9000), rng.choice(unrec or [now]), rng.randrange(1, 50)])
                ents.append([t.name, max(1, ts)])
            cmds.append({"kind": "restore", "entries": ents})
        elif r < 0.95:
            cmds.append({"kind": "gc"})
        else:
            cmds.append({"kind": "archive"})
    return {"name": "random-%d" % idx, "shape": shape.describe(), "commands": cmds}


# ----------------------------------------------------------------------------- running one history
def build_archive(shape, entries, workdir):
    """a donor project with the same experiments (no dependencies) records the wanted versions
    under a pinned clock; `cond archive` packs them.  Returns (archive path, [(name, ts)] recorded)."""
    flat = su.Shape([su.Task(t.name, t.num, args=t.args, opts=t.opts, path=t.path) for t in shape.tasks if t.kind == "exp"], "donor")
    donor = su.Project(flat, name="donor")
    recorded = []
    try:
        for i, (name, ts) in enumerate(sorted(entries, key=lambda e: e[1])):
            ident = flat.by_name[name].ident()
            su.invoke(donor, ["run", ident, "--again"], "d%d" % i, clock=[ts])
        rows = su.index_rows(donor.root)
        conn_order = sorted(rows, key=lambda r: r[1])
        for ident, ts, _c, _d in conn_order:
            recorded.append((ident, ts))
        out = os.path.join(workdir, "archive.tar.gz")
        if os.path.exists(out):
            os.unlink(out)
        res, _r, _p = su.invoke(donor, ["archive", "-o", out], "da")
        if res.code != 0 or not os.path.exists(out):
            return None, recorded
        return out, recorded
    finally:
        donor.cleanup()


def tree_hashes(project, keys):
    dirs = su.version_dirs(project)
    return {k: implrun.tree_snapshot(dirs[k]) if k in dirs else None for k in keys}


def run_history(h):
    out = run_history_once(h)
    if out.get("hung"):
        out = run_history_once(h)
        out["stats"]["hung_histories_retried"] = 1
    return out


def run_history_once(h):
    """executes the history on the implementation; returns observations, model text, oracle verdicts"""
    shape = su.Shape.from_description(h["shape"])
    project = su.Project(shape)
    out = {"name": h["name"], "violations": [], "want": [], "coq_cmds": [], "clock": [], "steps": [], "stats": {}}
    stats = collections_counter()
    try:
        inv = 0
        for ci, cmd in enumerate(h["commands"]):
            inv += 1
            rows_before = su.index_rows(project.root)
            dirs_before = su.version_dirs(project)
            rec_keys = [(r[0], r[1]) for r in rows_before]
            hashes_before = tree_hashes(project, rec_keys)
            max_before = max([r[1] for r in rows_before], default=0)
            recorded_names = {t.name for t in shape.tasks if any(r[0] == t.ident() for r in rows_before)}
            step = {"cmd": cmd}

            def bad(what, **extra):
                out["violations"].append({"command_index": ci, "what": what, "extra": extra})

            if cmd["kind"] == "run":
                argv = ["run", shape.by_name[cmd["root"]].ident()]
                if cmd.get("again"):
                    argv.append("--again")
                if cmd.get("jobs"):
                    argv += ["-j", str(cmd["jobs"])]
                res, readings, _pids = su.invoke(project, argv, inv, beh=cmd["beh"], clock=cmd["clock"])
                out["clock"].extend(readings)
                step["exit"] = res.code
                if res.hung:
                    out["hung"] = True
                step["readings"] = readings[:50]
                if res.code == su.RUNAWAY_EXIT or len(readings) >= su.MAX_READINGS:
                    bad("the version allocation of this invocation did not terminate (more than %d clock readings at a stalled clock)" % len(readings), kind="no-termination")
                    out["skip_model"] = True
                step["stderr"] = res.err[-600:]
                step["stdout"] = implrun.strip_ansi(res.out)[-600:]
                specs = su.run_specs(shape, cmd["root"], bool(cmd.get("again")), recorded_names, cmd["beh"])
                out["coq_cmds"].append(su.coq_command({"kind": "run", "specs": specs}))
                stats["allocations"] += len(specs)
                if len(readings) > len(specs):
                    stats["allocation_retries"] += len(readings) - len(specs)
                # --- the executions of this invocation, as the tasks themselves saw them
                starts = []
                for fn in sorted(os.listdir(project.obs)):
                    if fn.startswith("%d." % inv) and fn.endswith(".start"):
                        lines = open(os.path.join(project.obs, fn)).read().split("\n")
                        nonce = fn[: -len(".start")]
                        starts.append({"nonce": nonce, "task": nonce.split(".")[1], "out": lines[0], "listing": lines[1].split(), "beh": lines[2]})
                step["starts"] = [(s["task"], os.path.basename(s["out"])) for s in starts]
                seen_ts = {}
                seen_task = {}
                inv_dirs = {v: k for k, v in su.version_dirs(project).items()}
                for s in starts:
                    key = inv_dirs.get(s["out"])
                    if key is None:
                        bad("COND_OUT %s is not a version directory of cond-out" % s["out"])
                        continue
                    ident, ts = key
                    stats["executions"] += 1
                    if key in dirs_before:
                        bad("execution of %s was handed %s, which existed before the command started" % (ident, os.path.basename(s["out"])),
                            kind="reuse", ident=ident, ts=ts)
                    extra_files = [x for x in s["listing"] if x not in ("stdout.log", "stderr.log")]
                    if extra_files:
                        bad("output directory of %s (%s) was not empty when the task started: %s" % (ident, os.path.basename(s["out"]), extra_files),
                            kind="reuse", ident=ident, ts=ts)
                    if ts <= max_before:
                        bad("execution of %s was given version %d, not greater than the recorded version %d" % (ident, ts, max_before), kind="not-greater")
                    if ts in seen_ts:
                        bad("version %d given to both %s and %s in one invocation" % (ts, seen_ts[ts], ident), kind="duplicate-id")
                    seen_ts[ts] = ident
                    if ident in seen_task:
                        bad("task %s was executed twice in one invocation (versions %d and %d)" % (ident, seen_task[ident], ts), kind="two-versions", ident=ident)
                    seen_task[ident] = ts
                # --- recorded versions have a single writer, the successful execution they belong to
                by_out = {s["out"]: s for s in starts}
                now_dirs = su.version_dirs(project)
                for ident, ts, _c, _d in su.index_rows(project.root):
                    if (ident, ts) in rec_keys:
                        continue
                    path = now_dirs.get((ident, ts))
                    if path is None:
                        bad("recorded version %s@%d has no directory" % (ident, ts))
                        continue
                    writers, _fin, _a, _o = su.dir_content(path)
                    s = by_out.get(path)
                    if s is None or writers != {s["nonce"]}:
                        bad("recorded version %s@%d contains output of %s (its own execution: %s)" % (ident, ts, sorted(writers), s and s["nonce"]),
                            kind="reuse", ident=ident, ts=ts)
                    elif s["beh"] != "ok":
                        bad("recorded version %s@%d belongs to an execution that did not succeed (%s)" % (ident, ts, s["beh"]))
                    if ts <= max_before:
                        bad("new recorded version %s@%d is not greater than the earlier maximum %d" % (ident, ts, max_before), kind="not-greater")
            elif cmd["kind"] == "restore":
                arch, recorded = build_archive(shape, cmd["entries"], project.base)
                ents = []
                for ident, ts in recorded:
                    t = next(x for x in shape.tasks if x.ident() == ident)
                    ents.append({"task": t.num, "ts": ts, "args": t.args, "opts": t.opts})
                out["coq_cmds"].append(su.coq_command({"kind": "restore", "archive": ents}))
                step["archive"] = recorded
                if arch is None:
                    bad("harness: could not build the archive")
                else:
                    res, _r, _p = su.invoke(project, ["restore", arch], inv)
                    step["exit"] = res.code
                    stats["restores_ok" if res.code == 0 else "restores_refused"] += 1
            elif cmd["kind"] == "gc":
                res, _r, _p = su.invoke(project, ["gc"], inv)
                step["exit"] = res.code
                out["coq_cmds"].append("KGc")
            elif cmd["kind"] == "archive":
                res, _r, _p = su.invoke(project, ["archive", "-o", os.path.join(project.base, "out-%d.tar.gz" % inv)], inv)
                step["exit"] = res.code
                out["coq_cmds"].append("KArchive")
            # --- no command touches a recorded version
            hashes_after = tree_hashes(project, rec_keys)
            rows_after = {(r[0], r[1]) for r in su.index_rows(project.root)}
            for k in rec_keys:
                if k not in rows_after:
                    bad("row %s@%d disappeared from the index during `cond %s`" % (k[0], k[1], cmd["kind"]))
                if hashes_after[k] != hashes_before[k]:
                    bad("`cond %s` changed the directory of the recorded version %s@%d" % (cmd["kind"], k[0], k[1]), kind="touched")
                stats["recorded_dirs_rehashed"] += 1
            obs = su.observe(project)
            step["obs"] = obs
            out["want"].append(su.pack_obs(obs))
            out["steps"].append(step)
    finally:
        project.cleanup()
    out["stats"] = dict(stats)
    return out


def collections_counter():
    import collections

    return collections.Counter()


# ----------------------------------------------------------------------------- the check
def report(chk, h, res):
    for v in res["violations"]:
        extra = v["extra"]
        kind = extra.get("kind")
        mk = None
        if kind == "reuse":
            mk = {"history": "fail@t; run@t'<=t"}
        elif kind == "two-versions":
            mk = {"graph": "a->[b,d];b->[d]"}
        chk.violation(
            "impl-violation",
            "history %s, command #%d (%s): %s" % (h["name"], v["command_index"], h["commands"][v["command_index"]]["kind"], v["what"]),
            {"input": {"history": h}, "impl_observation": [{k: s.get(k) for k in ("cmd", "exit", "readings", "starts", "obs", "archive")} for s in res["steps"]],
             "oracle_verdict": v["what"]},
            match_key=mk,
            size=len(h["commands"]),
        )


def model_compare(chk, hists, results):
    """replays every history on Model/Store.v inside Coq and compares the observation after each command"""
    shards = []
    per = 24
    for i in range(0, len(hists), per):
        defs = []
        exprs = []
        want = []
        idx = []
        for j in range(i, min(i + per, len(hists))):
            r = results[j]
            if r.get("skip_model"):
                continue
            defs.append("Definition clk%d : nat -> N := %s.\nDefinition hist%d : list command := [%s].\n"
                        % (j, su.coq_clock(r["clock"]), j, ";\n  ".join(r["coq_cmds"])))
            exprs.append("map pack (play clk%d observe hist%d init)" % (j, j))
            want.extend(r["want"])
            idx.extend((j, c) for c in range(len(r["want"])))
        shards.append(("\n".join(defs), " ++ ".join(exprs), want, idx))
    agree = 0
    for defs, expr, want, idx in shards:
        if not want:
            continue
        ok, badi, raw = run_packed_cases(IMPORTS, defs, [expr], [want])[0]
        if not ok:
            chk.violation("correspondence", "model evaluation failed: %s" % raw[-400:],
                          {"theorem_or_tie": "correspondence Model/Store.v", "coq_output": raw}, found_input=False)
            continue
        if badi:
            j, c = idx[badi[0]] if badi[0] < len(idx) else idx[-1]
            chk.violation(
                "correspondence",
                "Model/Store.v and the implementation disagree after command #%d of history %s (%s)" % (c, hists[j]["name"], hists[j]["commands"][c]["kind"]),
                {"theorem_or_tie": "correspondence Model/Store.v (gen_version, alloc_version, run/restore/gc steps) vs `cond`",
                 "input": {"history": hists[j]}, "impl_observation": {k: results[j]["steps"][c].get(k) for k in ("obs", "exit", "stderr", "stdout", "readings", "starts")},
                 "model_commands": results[j]["coq_cmds"], "clock_readings": results[j]["clock"], "mismatching_indices": badi[:10]},
                found_input=False,
            )
        agree += len(want) - len(badi)
    return agree


def generator_unit(chk, tier):
    """VersionIndex.generate_new_output_version against gen_version on a grid of (last, now) pairs and
    on chains of calls (the returned id becomes the next `last`)"""
    su.setup_impl_path()
    import conductor.execution.version_index as vi  # pylint: disable=import-outside-toplevel

    pairs = [(a, b) for a in range(0, 14) for b in range(0, 14)]
    n = 300 if tier == "quick" else 6000
    for _ in range(n):
        a = chk.rng.randrange(0, 2 ** 33)
        pairs.append((a, max(0, a + chk.rng.choice([-5, -1, 0, 0, 1, 2, 10 ** 6, -10 ** 6, chk.rng.randrange(-50, 50)]))))
    real = vi.time.time
    got = []
    try:
        for last, now in pairs:
            vi.time.time = lambda now=now: now + 0.75
            idx = vi.VersionIndex(conn=None, last_timestamp=last, underlying_db_path=None)
            v = idx.generate_new_output_version(commit=None)
            if v.timestamp != idx._last_timestamp:  # pylint: disable=protected-access
                chk.violation("impl-violation", "generate_new_output_version(last=%d, now=%d) returned %d but remembers %d" % (last, now, v.timestamp, idx._last_timestamp),  # pylint: disable=protected-access
                              {"input": {"last": last, "now": now}, "oracle_verdict": "id handed out differs from the id remembered"}, size=1)
            if not v.timestamp > last:
                chk.violation("impl-violation", "generate_new_output_version(last=%d, now=%d) = %d is not greater than the last id" % (last, now, v.timestamp),
                              {"input": {"last": last, "now": now}, "impl_observation": v.timestamp, "oracle_verdict": "id not strictly greater than the last id"}, size=1)
            got.append(v.timestamp)
    finally:
        vi.time.time = real
    if not chk.coq.model_ok:
        return 0
    defs = "Definition pairs : list (N * N) := [%s].\n" % "; ".join("(%d, %d)" % p for p in pairs)
    ok, badi, raw = run_packed_cases(IMPORTS, defs, ["map (fun p => gen_version (fst p) (snd p)) pairs"], [got])[0]
    if not ok:
        chk.violation("correspondence", "model evaluation failed: %s" % raw[-300:], {"theorem_or_tie": "gen_version", "coq_output": raw}, found_input=False)
    elif badi:
        i = badi[0]
        chk.violation("correspondence", "gen_version and generate_new_output_version disagree at (last, now) = %r: implementation gives %d" % (pairs[i], got[i]),
                      {"theorem_or_tie": "correspondence gen_version vs VersionIndex.generate_new_output_version", "input": {"last": pairs[i][0], "now": pairs[i][1]},
                       "impl_observation": got[i]}, found_input=False)
    return len(pairs)


def first_run_on_an_old_format_index(chk):
    """"strictly greater than every recorded version of the project" -- also for the FIRST command that opens an index
    written by Conductor <= 0.4 (format 1, upgraded in place) whose newest version is ahead of this machine's clock (recorded
    on, or restored from, a machine whose clock was ahead; a clock stepped back).  The execution's version must be greater than
    the recorded one, and `cond where` must then report the new directory.  Control: the same on a format-2 index.  (Seed
    C08/m: the MAX(timestamp) seed of the generator was skipped on the branch right after the upgrade.)"""
    import sqlite3
    import time
    import implrun

    for fmt in (2, 1):
        root = implrun.make_project({"COND": 'run_experiment(name="exp", run="echo new > $COND_OUT/r")\nrun_experiment(name="other", run="echo o > $COND_OUT/r")\n'})
        out = os.path.join(root, "cond-out")
        os.makedirs(out)
        future = int(time.time()) + 100000
        olds = [("//:exp", future - 5), ("//:exp", future), ("//:other", future + 7)]
        conn = sqlite3.connect(os.path.join(out, "version_index.sqlite"))
        if fmt == 1:
            conn.execute("CREATE TABLE version_index (task_identifier TEXT NOT NULL, timestamp INTEGER NOT NULL, git_commit TEXT NOT NULL, PRIMARY KEY (task_identifier, timestamp))")
            conn.executemany("INSERT INTO version_index VALUES (?, ?, 'unknown')", olds)
        else:
            conn.execute("CREATE TABLE version_index (task_identifier TEXT NOT NULL, timestamp INTEGER NOT NULL, git_commit_hash TEXT, has_uncommitted_changes INTEGER NOT NULL, PRIMARY KEY (task_identifier, timestamp))")
            conn.executemany("INSERT INTO version_index VALUES (?, ?, NULL, 0)", olds)
        conn.execute("PRAGMA user_version = %d" % fmt)
        conn.commit()
        conn.close()
        for t, ts in olds:
            d = os.path.join(out, "%s.task.%d" % (t[3:], ts))
            os.makedirs(d)
            open(os.path.join(d, "r"), "w").write("old\n")
        r = implrun.run_cond(["run", "//:exp", "--again"], root)
        w = implrun.run_cond(["where", "//:exp"], root)
        chk.coverage["evaluations"] = chk.coverage.get("evaluations", 0) + 1
        chk.count("old-format", "format %d, newest version ahead of the clock" % fmt)
        rows = sorted((x[0], x[1]) for x in implrun.index_rows(root))
        new = [k for k in rows if k not in olds]
        msg = None
        if r.code != 0 or len(new) != 1:
            msg = "`cond run //:exp --again` exited %s; recorded versions %r" % (r.code, rows)
        elif new[0][1] <= max(ts for _t, ts in olds):
            msg = "the execution was given version %d although version %d is already recorded in the project" % (new[0][1], max(ts for _t, ts in olds))
        elif implrun.strip_ansi(w.out).strip() != os.path.join(out, "exp.task.%d" % new[0][1]):
            msg = "`cond where //:exp` reports %r after the run, the new version is exp.task.%d" % (implrun.strip_ansi(w.out).strip(), new[0][1])
        if msg:
            chk.violation("impl-violation", "first command on a format-%d index whose newest version is ahead of the clock: %s" % (fmt, msg),
                          {"input": {"part": "old-format-future", "format": fmt, "recorded": olds}, "impl_observation": {"rows": rows, "where": w.out[-200:]}, "oracle_verdict": msg}, match_key={"part": "old-format-future"}, size=3)
        else:
            chk.coverage["traces_validated_against_impl"] = chk.coverage.get("traces_validated_against_impl", 0) + 1


def run(tier, seed, replay=None):
    chk = Check("C08", tier, seed)
    chk.build_proofs(["Model/Store.vo", "Lib/Cmp.vo", "Refuted/StoreOld.vo", "Refuted/StagingOld.vo"])
    su.preimport()
    chk.assumptions = [
        "one cond process at a time per project; task processes write only inside their own COND_OUT",
        "time.time() as read by generate_new_output_version is an arbitrary function (patched to follow generated sequences)",
        "sqlite MAX(timestamp), PRIMARY KEY and transactions behave as documented",
    ]

    if replay is not None and replay.get("input", {}).get("part") == "staging-collision":
        import archive_util as au  # pylint: disable=import-outside-toplevel

        au.staging_collision(chk, "C08")
        return chk.finish()
    if replay is not None:
        if "history" not in replay.get("input", {}):
            print("replay: (last, now) = %r -- re-running the generator comparison" % (replay.get("input"),))
            generator_unit(chk, tier)
            return chk.finish()
        h = replay["input"]["history"]
        res = run_history(h)
        print("replay: history %s" % h["name"])
        for s in res["steps"]:
            print("  cond %-8s exit=%s readings=%s starts=%s" % (s["cmd"]["kind"], s.get("exit"), s.get("readings"), s.get("starts")))
            print("     rows=%s dirs=%s" % (s["obs"][0], s["obs"][1]))
        for v in res["violations"]:
            print("  oracle: command #%d: %s" % (v["command_index"], v["what"]))
        if not res["violations"]:
            print("  oracle: every execution got a fresh, greater, unique version directory; no recorded version was touched")
        report(chk, h, res)
        if chk.coq.model_ok:
            model_compare(chk, [h], [res])
        return chk.finish()

    n_unit = generator_unit(chk, tier)
    import archive_util as au  # pylint: disable=import-outside-toplevel

    au.staging_collision(chk, "C08")     # D23: restore vs. a package named like its staging directory
    import c13 as _c13  # pylint: disable=import-outside-toplevel

    _c13.recorded_versions_are_not_explored(chk)   # gc never reaches into a recorded version
    first_run_on_an_old_format_index(chk)
    au.equal_timestamps_across_tasks(chk, "C08")   # gc / archive / restore keep versions of different tasks that share a timestamp
    import c06  # pylint: disable=import-outside-toplevel

    c06.background_writer(chk, "C08")    # nothing is written into a version's directory once its row is visible
    hists = corpus()
    n_random = 40 if tier == "quick" else 900
    for i in range(n_random):
        hists.append(random_history(chk.rng, i))
    results = su.pmap(run_history, hists)
    total = collections_counter()
    nontrivial = 0
    for h, res in zip(hists, results):
        report(chk, h, res)
        total.update(res["stats"])
        chk.count("shape", h["shape"]["label"])
        for c in h["commands"]:
            chk.count("command", c["kind"])
        if res["stats"].get("allocation_retries") or res["stats"].get("restores_refused"):
            nontrivial += 1
        if len(chk.coverage["samples"]) < 4:
            chk.sample({"history": h["name"], "commands": [c["kind"] for c in h["commands"]],
                        "final_rows": res["steps"][-1]["obs"][0] if res["steps"] else None})
    chk.coverage["evaluations"] = sum(len(h["commands"]) for h in hists)
    chk.coverage["distinct_nontrivial"] = nontrivial
    chk.coverage["exhaustive"] = False
    chk.coverage["rule"] = (
        "histories of 2-8 real cond invocations (run with per-task outcomes ok/fail/fail-after-output/kill/abort, --again, -j, restore of "
        "archives with chosen timestamps, gc, archive) over five project shapes (independent, chain, the D1 diamond, sub-directory, tree) under "
        "generated clock sequences (same second, backward steps, jumps); non-trivial = the allocation loop had to re-generate at least once "
        "(an unrecorded directory was in the way) or a restore was refused"
    )
    chk.coverage["distribution"]["totals"] = dict(total)
    chk.coverage["distribution"]["generator_pairs"] = {"compared": n_unit}

    if chk.coq.model_ok:
        agree = model_compare(chk, hists, results)
        chk.coverage["traces_validated_against_impl"] = agree
        chk.coverage["disagreements_checked"] = sum(len(r["want"]) for r in results)
    else:
        chk.violation("correspondence", "model does not build: " + chk.coq.log[-400:],
                      {"theorem_or_tie": "build of Model/Store.vo", "log": chk.coq.log[-3000:]}, found_input=False)
    if tier == "thorough":
        chk.run_coqchk()
    return chk.finish()
