#!/bin/bash
# setup_cmd: regenerate Gen/Generated.v from /repo, build the whole Coq development (full .vo build).
set -e
cd "$(dirname "$0")"
export PYTHONHASHSEED=0 PYTHONDONTWRITEBYTECODE=1
export VERIF_REPO="${VERIF_REPO:-/repo}"
PYTHONPATH="$VERIF_REPO/src" /venv/bin/python harness/gen_generated.py
cd coq
make -f Makefile.wrap Makefile.coq
# -k: a proof that no longer checks against the regenerated parameters must not stop the rest
timeout 3000 make -f Makefile.coq -k -j16 || echo "setup: some Coq files did not build (the checks that depend on them will report it)"
